package multiplex

import (
	"encoding/binary"
	"golang.org/x/crypto/salsa20"

	"github.com/cbeuw/Cloak/internal/zzverif/vapi"
)

func VerifDbg1() {
	sid := vapi.U32("sid")
	b := make([]byte, 4)
	binary.BigEndian.PutUint32(b, sid)
	vapi.Assert(binary.BigEndian.Uint32(b) == sid, "rt1")
	h := make([]byte, 4)
	h[0] = byte(sid >> 24)
	h[1] = byte(sid >> 16)
	h[2] = byte(sid >> 8)
	h[3] = byte(sid)
	vapi.Assert(vapi.BytesEq(h, b), "manual put == binary put")
	x := uint32(h[0])<<24 | uint32(h[1])<<16 | uint32(h[2])<<8 | uint32(h[3])
	vapi.Assert(x == sid, "manual get")
	vapi.Assert(binary.BigEndian.Uint32(h) == sid, "binary get of manual put")
}

func VerifDbg2() {
	key := c04Key()
	hdr := vapi.Bytes("hdr", 14)
	tail := vapi.Bytes("tail", 8)
	out := make([]byte, 14)
	salsaX(out, hdr, tail, &key)
	out = append(out, tail...)
	back := out[:14]
	salsaX(back, back, out[len(out)-8:], &key)
	vapi.Assert(vapi.BytesEq(back, hdr), "salsa involution")
	msg := refEncode(0, key, 7, 9, 1, []byte{5}, nil, tail)
	rf, err := refDecode(0, key, msg)
	vapi.Assert(err == nil, "ref rt err")
	vapi.Assert(rf.streamID == 7, "ref rt sid")
	vapi.Assert(rf.seq == 9, "ref rt seq")
	vapi.Assert(rf.closing == 1, "ref rt closing")
	vapi.Assert(len(rf.payload) == 1, "ref rt plen")
}

func salsaX(out, in, nonce []byte, key *[32]byte) { salsa20.XORKeyStream(out, in, nonce, key) }

func VerifDbg3() {
	key := c04Key()
	o, _ := MakeObfuscator(0, key)
	tail := vapi.Bytes("tail", 8)
	sid := vapi.U32("sid")
	msg := refEncode(0, key, sid, 9, 1, []byte{5}, nil, tail)
	var g Frame
	err := o.deobfuscate(&g, msg)
	vapi.Assert(err == nil, "err")
	vapi.Observe("sid", uint64(g.StreamID))
	vapi.Observe("seq", g.Seq)
	vapi.Assert(g.Seq == 9, "seq")
	vapi.Assert(g.StreamID == sid, "sid")
}
