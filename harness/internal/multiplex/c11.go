package multiplex

import (
	"golang.org/x/crypto/salsa20"

	"github.com/cbeuw/Cloak/internal/zzverif/vapi"
)

func c11Honest(method byte, key [32]byte, plen int) (o Obfuscator, msg []byte, f *Frame) {
	if vapi.Param("edgepads", 0) == 1 {
		vapi.RandIntEdges(true)
	} else {
		vapi.RandIntSmall(true)
	}
	o, _ = MakeObfuscator(method, key)
	payload := vapi.Bytes("payload", plen)
	f = &Frame{StreamID: vapi.U32("sid"), Seq: vapi.U64("seq"), Closing: vapi.U8("closing"), Payload: payload}
	buf := make([]byte, 14+plen+255)
	n, err := o.obfuscate(f, buf, 0)
	vapi.Assume(err == nil)
	n = vapi.Concretize(n)
	msg = buf[:n]
	return
}

// VerifC11Mod: any modification of an honest AEAD frame is rejected (ideal AEAD with ciphertext integrity).
func VerifC11Mod() {
	vapi.Adversary(true)
	vapi.ConcLimit(256)
	method := byte(1 + vapi.Pick("method", 3))
	key := c04Key()
	o, msg, _ := c11Honest(method, key, 1+vapi.Pick("plen", 2))
	n := len(msg)
	// the modification is confined to one region (thorough tier: any two regions): every non-zero delta over the
	// region's bytes is covered symbolically, bytes outside it are left unchanged.
	// regions: 0 = header bytes 0..11 (stream id, sequence number), 1 = header bytes 12..13, 2 = body without the
	// last 8 bytes, 3 = last 8 bytes (tag tail = header-cipher nonce)
	bounds := [][2]int{{0, 12}, {12, 14}, {14, n - 8}, {n - 8, n}}
	delta := make([]byte, n)
	r1 := vapi.Pick("region", 4)
	r2 := r1
	if vapi.Param("tworegions", 0) == 1 {
		r2 = vapi.Pick("region2", 4)
	}
	regions := []int{r1}
	if r2 != r1 {
		regions = append(regions, r2)
	}
	for _, r := range regions {
		copy(delta[bounds[r][0]:bounds[r][1]], vapi.Bytes("delta", bounds[r][1]-bounds[r][0]))
	}
	nz := false
	outside := false // delta touches a byte other than header bytes 12,13
	for i := 0; i < n; i++ {
		nz = vapi.Or(nz, delta[i] != 0)
		if i != 12 && i != 13 {
			outside = vapi.Or(outside, delta[i] != 0)
		}
	}
	vapi.Assume(nz)
	m2 := make([]byte, n)
	for i := range m2 {
		m2[i] = msg[i] ^ delta[i]
	}
	var g Frame
	err := o.deobfuscate(&g, m2)
	if outside {
		vapi.Assert(err != nil, "C11: a frame modified anywhere outside header bytes 12-13 is rejected")
		vapi.Reach("mod-outside")
	} else {
		vapi.AssertKnown(err != nil, "C11-header-bytes-12-13-unauthenticated", "C11: a frame whose closing flag / extra-length byte (header bytes 12-13) was modified is rejected")
		vapi.Reach("mod-1213")
	}
}

// VerifC11Trunc: truncated / extended messages and messages sealed under another key or method are rejected.
func VerifC11Trunc() {
	vapi.Adversary(true)
	vapi.ConcLimit(256)
	method := byte(1 + vapi.Pick("method", 3))
	key := c04Key()
	o, msg, _ := c11Honest(method, key, 1+vapi.Pick("plen", 2))
	n := len(msg)
	var g Frame
	switch vapi.Pick("kind", 3) {
	case 0: // truncation by 1..3 bytes
		k := 1 + vapi.Pick("k", 3)
		m2 := make([]byte, n-k)
		copy(m2, msg)
		err := o.deobfuscate(&g, m2)
		vapi.Assert(err != nil, "C11: truncated frame rejected")
	case 1: // extension by 1..3 arbitrary bytes
		k := 1 + vapi.Pick("k", 3)
		m2 := append(append([]byte{}, msg...), vapi.Bytes("ext", k)...)
		err := o.deobfuscate(&g, m2)
		vapi.Assert(err != nil, "C11: extended frame rejected")
	case 2: // honest frame of another session key / another method, presented to this session
		var key2 [32]byte
		copy(key2[:], vapi.Bytes("key2", 32))
		method2 := byte(1 + vapi.Pick("method2", 3))
		same := true
		for i := range key {
			same = vapi.And(same, key[i] == key2[i])
		}
		// AES-128-GCM keys the AEAD with the first half only; keys that agree there are "the same AEAD key" and
		// would only be told apart by the header keystream, whose independence the ideal model does not assume
		vapi.Assume(vapi.Or(key[0] != key2[0], method2 != method))
		_ = same
		o2, _ := MakeObfuscator(method2, key2)
		cp := append([]byte{}, msg...)
		err := o2.deobfuscate(&g, cp)
		vapi.Assert(err != nil, "C11: frame sealed under another key or method rejected")
	}
	vapi.Reach("trunc-end")
}

// c11Garbage builds an arbitrary message of length n: the wire header is obtained by stream-encrypting an
// arbitrary plain header (a bijection for fixed trailing bytes), so every byte string of that length is covered
// and the counterexample stays meaningful under real Salsa20 in a concrete replay.
func c11Garbage(key [32]byte, n int) []byte {
	if n < 14+8 {
		return vapi.Bytes("garbage", n)
	}
	hdr := vapi.Bytes("ghdr", 14)
	body := vapi.Bytes("gbody", n-14)
	out := make([]byte, 14)
	salsa20.XORKeyStream(out, hdr, body[len(body)-8:], &key)
	return append(out, body...)
}

// VerifC11Garbage: arbitrary received bytes never crash; under an authenticated method they are dropped without
// effect and a later valid frame is still processed.
func VerifC11Garbage() {
	vapi.Adversary(true)
	method := byte(vapi.Pick("method", 4))
	key := c04Key()
	lens := []int{0, 1, 13, 14, 21, 22, 23, 30, 37, 38, 39, 40}
	n := lens[vapi.Pick("len", len(lens))]
	o, _ := MakeObfuscator(method, key)
	sesh := MakeSession(0, SessionConfig{Obfuscator: o})
	msg := c11Garbage(key, n)
	var err error
	panicked := vapi.Catch(func() { err = sesh.recvDataFromRemote(msg) })
	vapi.Assert(!panicked, "C11: arbitrary received bytes never crash the process")
	if method != 0 {
		vapi.Assert(err != nil, "C11: garbage is rejected under an authenticated method")
		vapi.Assert(len(sesh.streams) == 0, "C11: garbage creates no stream")
		vapi.Assert(sesh.streamCount() == 0, "C11: garbage does not move the stream counter")
		vapi.Assert(len(sesh.acceptCh) == 0, "C11: garbage queues nothing for Accept")
		vapi.Assert(!sesh.IsClosed(), "C11: garbage does not close the session")
		// a later valid frame is still processed
		payload := vapi.Bytes("payload", 2)
		f := &Frame{StreamID: 1, Seq: 0, Closing: closingNothing, Payload: payload}
		buf := make([]byte, 14+2+255)
		vapi.RandIntEdges(true)
		k, e2 := o.obfuscate(f, buf, 0)
		vapi.Assume(e2 == nil)
		k = vapi.Concretize(k)
		err = sesh.recvDataFromRemote(buf[:k])
		vapi.Assert(err == nil, "C11: a valid frame after garbage is accepted")
		vapi.Assert(len(sesh.acceptCh) == 1, "C11: the valid frame's stream is offered to Accept")
		st, _ := sesh.Accept()
		rb := make([]byte, 4)
		r, rerr := st.Read(rb)
		vapi.Assert(rerr == nil && r == 2 && rb[0] == payload[0] && rb[1] == payload[1], "C11: the valid frame's payload is delivered")
	}
	vapi.Reach("garbage-end")
}

// VerifC11GarbageLen: no crash for any message length 0..20480 (contents abstract), all methods.
func VerifC11GarbageLen() {
	method := byte(vapi.Pick("method", 4))
	o, _ := MakeObfuscator(method, c04Key())
	n := vapi.Range("n", 0, 20480)
	msg := vapi.AbstractBytes("msg", 20480)[:n]
	var g Frame
	panicked := vapi.Catch(func() { _ = o.deobfuscate(&g, msg) })
	vapi.Assert(!panicked, "C11: deobfuscate never panics for any input length up to the receive buffer size")
	vapi.Reach("garbagelen-end")
}
