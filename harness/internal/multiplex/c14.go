package multiplex

import (
	"io"

	"github.com/cbeuw/Cloak/internal/zzverif/vapi"
	"github.com/cbeuw/Cloak/internal/zzverif/vconn"
)

// VerifC14Pipe: sequences of Write / Read / Close on the datagram pipe against a FIFO-of-datagrams reference.
func VerifC14Pipe() {
	nops := vapi.Param("ops", 4)
	d := NewDatagramBufferedPipe()
	var queue [][]byte // reference: datagrams accepted and not yet delivered
	closed := false
	names := []string{"d0", "d1", "d2", "d3", "d4", "d5", "d6", "d7"}
	for op := 0; op < nops; op++ {
		switch vapi.Pick("op", 3) {
		case 0: // write a datagram of 1..3 bytes
			if closed {
				continue
			}
			pl := vapi.Bytes(names[op], 1+vapi.Pick("len", 3))
			buf := append([]byte{}, pl...) // the caller's buffer is reused afterwards
			toClose, err := d.Write(&Frame{Payload: buf})
			vapi.Assert(err == nil && !toClose, "C14: datagram accepted")
			buf[0] = vapi.U8("junk")
			queue = append(queue, pl)
		case 1: // read with a buffer of 0..3 bytes
			size := vapi.Pick("bufsize", 4)
			b := make([]byte, size)
			if len(queue) == 0 {
				if closed {
					n, err := d.Read(b)
					vapi.Assert(n == 0 && err == io.EOF, "C14: end of stream only when closed and empty")
				} else if vapi.Param("probe", 0) == 1 {
					vapi.Assert(vapi.WouldBlock(func() { d.Read(b) }), "C14: read on an empty open pipe blocks")
					return // the probe thread stays parked; end of this history
				}
				continue
			}
			want := queue[0]
			n, err := d.Read(b)
			if size < len(want) {
				vapi.Assert(err == io.ErrShortBuffer && n == 0, "C14: short buffer reports an error")
				// ... without consuming or truncating: a large read returns the same datagram
				big := make([]byte, 8)
				n, err = d.Read(big)
				vapi.Assert(err == nil && n == len(want), "C14: the datagram is still there after a short-buffer read")
				vapi.Assert(vapi.BytesEq(big[:n], want), "C14: ... whole and unaltered")
			} else {
				vapi.Assert(err == nil && n == len(want), "C14: one read returns one whole datagram")
				vapi.Assert(vapi.BytesEq(b[:n], want), "C14: content identical, FIFO order")
			}
			queue = queue[1:]
		case 2:
			if closed {
				continue
			}
			d.Close()
			closed = true
		}
	}
	// drain: everything accepted is delivered exactly once, in order, as whole messages
	for len(queue) > 0 {
		b := make([]byte, 8)
		n, err := d.Read(b)
		vapi.Assert(err == nil && n == len(queue[0]), "C14: drain returns whole datagrams")
		vapi.Assert(vapi.BytesEq(b[:n], queue[0]), "C14: drain content")
		queue = queue[1:]
	}
	vapi.Reach("pipe-end")
}

func c14Session(method byte, key [32]byte, limit int, unordered bool) (*Session, *vconn.Conn, *vconn.Conn) {
	o, _ := MakeObfuscator(method, key)
	sesh := MakeSession(1, SessionConfig{Obfuscator: o, Unordered: unordered, MsgOnWireSizeLimit: limit})
	a, b := vconn.Pipe(true)
	sesh.AddConnection(a)
	return sesh, a, b
}

// VerifC14Send: an unordered write puts exactly one frame carrying the whole datagram on the wire, or is refused
// (io.ErrShortBuffer) with nothing sent when the datagram does not fit one frame.
func VerifC14Send() {
	vapi.RandIntSmall(true)
	method := byte(vapi.Pick("method", 2)) // plain, aes-256-gcm
	key := c04Key()
	limit := 14 + 255 + 4 // per-frame payload maximum = 4
	sesh, a, _ := c14Session(method, key, limit, true)
	maxUnit := sesh.maxStreamUnitWrite
	vapi.Assert(maxUnit == 4, "C14: per-frame maximum derived from the limit")
	sizes := []int{1, maxUnit - 1, maxUnit, maxUnit + 1, maxUnit + 2, 2 * maxUnit, limit - 1, limit, limit + 1}
	size := sizes[vapi.Pick("size", len(sizes))]
	st, err := sesh.OpenStream()
	vapi.Assert(err == nil, "C14: stream opened")
	dg := vapi.Bytes("dg", size)
	n, werr := st.Write(dg)
	if size > maxUnit {
		vapi.Assert(werr == io.ErrShortBuffer, "C14: a datagram too large for one frame is refused at the sender")
		vapi.Assert(len(a.Writes) == 0, "C14: ... and nothing is sent")
		vapi.Reach("send-refused")
		return
	}
	vapi.Assert(werr == nil && n == size, "C14: datagram accepted")
	vapi.Assert(len(a.Writes) == 1, "C14: exactly one frame per datagram")
	rf, derr := refDecode(method, key, a.Writes[0])
	vapi.Assert(derr == nil, "C14: frame decodes")
	vapi.Assert(rf.streamID == st.id && rf.closing == 0, "C14: frame addressed to the stream")
	vapi.Assert(len(rf.payload) == size, "C14: frame carries the whole datagram")
	vapi.Assert(vapi.BytesEq(rf.payload, dg), "C14: content identical")
	vapi.Reach("send-one")
}

// VerifC14Recv: datagrams of two streams arriving in any order are delivered whole to their own stream.
func VerifC14Recv() {
	key := c04Key()
	o, _ := MakeObfuscator(0, key)
	sesh := MakeSession(1, SessionConfig{Obfuscator: o, Unordered: true, MsgOnWireSizeLimit: 14 + 255 + 4})
	// frames: (stream 1, A), (stream 2, B), (stream 1, C) in any arrival order
	type fr struct {
		sid uint32
		seq uint64
		pl  []byte
	}
	frames := []fr{{1, 0, vapi.Bytes("A", 2)}, {2, 0, vapi.Bytes("B", 1)}, {1, 1, vapi.Bytes("C", 3)}}
	rem := []int{0, 1, 2}
	var order []int
	for len(rem) > 0 {
		k := vapi.Pick("ord", len(rem))
		order = append(order, rem[k])
		rem = append(rem[:k], rem[k+1:]...)
	}
	shared := make([]byte, 64)
	for _, i := range order {
		msg := refEncode(0, key, frames[i].sid, frames[i].seq, 0, frames[i].pl, nil, vapi.Bytes("tail", 8))
		copy(shared, msg)
		err := sesh.recvDataFromRemote(shared[:len(msg)])
		vapi.Assert(err == nil, "C14: frame accepted")
	}
	vapi.Assert(len(sesh.acceptCh) == 2, "C14: two streams offered to Accept")
	got := map[uint32][][]byte{}
	for k := 0; k < 2; k++ {
		c, _ := sesh.Accept()
		st := c.(*Stream)
		for {
			want := 0
			for _, f := range frames {
				if f.sid == st.id {
					want++
				}
			}
			if len(got[st.id]) == want {
				break
			}
			b := make([]byte, 8)
			n, err := st.Read(b)
			vapi.Assert(err == nil, "C14: datagram readable")
			got[st.id] = append(got[st.id], b[:n])
		}
	}
	// stream 1 gets A and C (each once, whole, in arrival order), stream 2 gets B
	vapi.Assert(len(got[2]) == 1 && vapi.BytesEq(got[2][0], frames[1].pl), "C14: stream 2 receives exactly its datagram")
	vapi.Assert(len(got[1]) == 2, "C14: stream 1 receives its two datagrams")
	aFirst := true
	for _, i := range order {
		if i == 0 {
			break
		}
		if i == 2 {
			aFirst = false
			break
		}
	}
	if aFirst {
		vapi.Assert(vapi.BytesEq(got[1][0], frames[0].pl) && vapi.BytesEq(got[1][1], frames[2].pl), "C14: whole datagrams, never merged or mixed")
	} else {
		vapi.Assert(vapi.BytesEq(got[1][0], frames[2].pl) && vapi.BytesEq(got[1][1], frames[0].pl), "C14: whole datagrams, never merged or mixed")
	}
	vapi.Reach("recv-end")
}

func vconnPipe() (*vconn.Conn, *vconn.Conn) { return vconn.Pipe(true) }
