package multiplex

import (
	"github.com/cbeuw/Cloak/internal/common"
	"github.com/cbeuw/Cloak/internal/zzverif/vapi"
	"github.com/cbeuw/Cloak/internal/zzverif/vconn"
)

// c10Reader yields the given chunks one per Read (an empty chunk is a Read returning (0, nil), as a UDP socket does
// for an empty datagram), then an error.
type c10Reader struct {
	chunks [][]byte
	i      int
}

func (r *c10Reader) Read(p []byte) (int, error) {
	if r.i >= len(r.chunks) {
		return 0, vconn.ErrClosed
	}
	n := copy(p, r.chunks[r.i])
	r.i++
	return n, nil
}

// VerifC10Tap: everything a session puts on a direct-mode connection after the handshake - data frames of any
// size (including empty writes and empty reads from the relayed peer), stream closes, the session close - parses as
// a sequence of application-data records (type 23, version 3.3) with 0 < length <= 2^14+256 and nothing left over.
func VerifC10Tap() {
	vapi.RandZero(true)
	method := byte(vapi.Pick("method", vapi.Param("methods", 2)))
	if method == 1 && vapi.Param("methods", 2) == 2 {
		method = 1
	}
	unordered := vapi.Pick("unordered", 2) == 1
	key := c04Key()
	o, _ := MakeObfuscator(method, key)
	sesh := MakeSession(1, SessionConfig{Obfuscator: o, Unordered: unordered, MsgOnWireSizeLimit: 14 + 255 + 4 + 16})
	a, _ := vconn.Pipe(false)
	sesh.AddConnection(common.NewTLSConn(a))
	st, _ := sesh.OpenStream()
	for step := 0; step < vapi.Param("ops", 2); step++ {
		switch vapi.Pick("op", 4) {
		case 0:
			lens := []int{0, 1, 4, 5}
			st.Write(vapi.Bytes("w", lens[vapi.Pick("wlen", len(lens))]))
		case 1:
			st.ReadFrom(&c10Reader{chunks: [][]byte{vapi.Bytes("r0", 2), {}, vapi.Bytes("r1", 1)}})
		case 2:
			st.ReadFrom(&c10Reader{chunks: [][]byte{{}}})
		case 3:
			st.Close()
			st, _ = sesh.OpenStream()
		}
	}
	st.Close()
	sesh.Close()
	vapi.Quiesce()
	var wire []byte
	for _, w := range a.Writes {
		wire = append(wire, w...)
	}
	nrec := 0
	for len(wire) > 0 {
		vapi.Assert(len(wire) >= 5, "C10: no partial record header on the wire")
		if len(wire) < 5 {
			break
		}
		vapi.Assert(wire[0] == 23 && wire[1] == 3 && wire[2] == 3, "C10: every byte after the handshake belongs to an application-data record (type 23, version 3.3)")
		l := int(wire[3])<<8 | int(wire[4])
		vapi.Assert(l > 0, "C10: record length is non-zero")
		vapi.Assert(l <= 1<<14+256, "C10: record length at most 2^14+256")
		vapi.Assert(len(wire) >= 5+l, "C10: the record body is complete")
		if len(wire) < 5+l {
			break
		}
		wire = wire[5+l:]
		nrec++
	}
	vapi.Assert(nrec >= 2, "C10: the stream close and the session close are on the wire")
	vapi.Reach("tap-end")
}
