package multiplex

import (
	"github.com/cbeuw/Cloak/internal/zzverif/vapi"
	"github.com/cbeuw/Cloak/internal/zzverif/vconn"
)

func c13Fine() {
	for _, f := range []string{
		"(*github.com/cbeuw/Cloak/internal/multiplex.Stream).obfuscateAndSend",
		"(*github.com/cbeuw/Cloak/internal/multiplex.Stream).Write",
		"(*github.com/cbeuw/Cloak/internal/multiplex.Stream).ReadFrom",
		"(*github.com/cbeuw/Cloak/internal/multiplex.Session).closeStream",
		"(*github.com/cbeuw/Cloak/internal/multiplex.Obfuscator).obfuscate",
	} {
		vapi.FineGrain(f)
	}
}

// c13Decode decodes everything this endpoint put on the wire.
func c13Decode(key [32]byte, a *vconn.Conn) []refFrame {
	var fs []refFrame
	for _, w := range a.Writes {
		f, err := refDecode(0, key, w)
		vapi.Assert(err == nil, "C13: every emitted message is a decodable frame")
		fs = append(fs, f)
	}
	return fs
}

// c13CheckSeq: per stream, sequence numbers are 0,1,2,... in emission order, each used once.
func c13CheckSeq(fs []refFrame) {
	next := map[uint32]uint64{}
	for _, f := range fs {
		vapi.Assert(f.seq == next[f.streamID], "C13: sequence numbers are used exactly once, gap-free, in emission order")
		next[f.streamID] = f.seq + 1
	}
	for i := range fs {
		for j := i + 1; j < len(fs); j++ {
			vapi.Assert(!(fs[i].streamID == fs[j].streamID && fs[i].seq == fs[j].seq), "C13: no two messages share a (stream id, sequence number) pair")
		}
	}
}

// VerifC13Conc: Write(A) || Write(B) || Close() on one stream, every interleaving within the preemption bound
// (scheduling points at synchronisation operations and at the plain loads/stores of the send path).
func VerifC13Conc() {
	vapi.SetPreemptBound(vapi.Param("preempt", 1))
	vapi.RandZero(true)
	if vapi.Param("fine", 1) == 1 {
		c13Fine()
	}
	key := c04Key()
	sesh, a, _ := c14Session(0, key, 14+255+4, false)
	st, _ := sesh.OpenStream()
	A := vapi.Bytes("A", 5) // two frames: 4 + 1 bytes
	B := vapi.Bytes("B", 3) // one frame
	var errA, errB error
	doneA, doneB, aBeforeClose, bBeforeClose := false, false, false, false
	go func() { _, errA = st.Write(A); doneA = true }()
	go func() { _, errB = st.Write(B); doneB = true }()
	if vapi.Param("withclose", 1) == 1 {
		go func() { aBeforeClose, bBeforeClose = doneA, doneB; st.Close() }()
	}
	vapi.Quiesce()
	vapi.Assert(doneA && doneB, "C13: writes return")
	fs := c13Decode(key, a)
	c13CheckSeq(fs)
	// frames of one Write are contiguous and in order, and carry the written bytes
	posA := -1
	closeAt := -1
	for i, f := range fs {
		if f.closing != 0 {
			vapi.Assert(closeAt < 0, "C13: at most one closing frame")
			closeAt = i
			continue
		}
		if len(f.payload) == 4 {
			vapi.Assert(posA < 0, "C13: first frame of A emitted once")
			posA = i
			vapi.Assert(vapi.BytesEq(f.payload, A[:4]), "C13: data frames carry the written bytes")
		}
		if len(f.payload) == 3 {
			vapi.Assert(vapi.BytesEq(f.payload, B), "C13: data frames carry the written bytes")
		}
	}
	if errA == nil {
		vapi.Assert(posA >= 0 && posA+1 < len(fs) && len(fs[posA+1].payload) == 1 && fs[posA+1].closing == 0, "C13: the frames of one write are contiguous and in order")
		if posA >= 0 && posA+1 < len(fs) {
			vapi.Assert(fs[posA+1].payload[0] == A[4], "C13: second frame of A carries its tail")
		}
	}
	if closeAt >= 0 {
		vapi.Assert(closeAt == len(fs)-1, "C13: nothing is numbered after the closing frame")
		if aBeforeClose {
			vapi.Assert(errA == nil, "C13: a write completed before Close was accepted")
		}
		_, _ = bBeforeClose, errB
	}
	vapi.Reach("conc-end")
}

type c13Reader struct {
	chunks [][]byte
	i      int
}

func (r *c13Reader) Read(p []byte) (int, error) {
	if r.i >= len(r.chunks) {
		return 0, vconn.ErrClosed
	}
	n := copy(p, r.chunks[r.i])
	r.i++
	return n, nil
}

// VerifC13ReadFrom: ReadFrom(r) || Write(B) on one stream.
func VerifC13ReadFrom() {
	vapi.SetPreemptBound(vapi.Param("preempt", 1))
	vapi.RandZero(true)
	if vapi.Param("fine", 1) == 1 {
		c13Fine()
	}
	key := c04Key()
	sesh, a, _ := c14Session(0, key, 14+255+4, false)
	st, _ := sesh.OpenStream()
	r := &c13Reader{chunks: [][]byte{vapi.Bytes("R0", 2), vapi.Bytes("R1", 1)}}
	B := vapi.Bytes("B", 3)
	go func() { st.ReadFrom(r) }()
	go func() { st.Write(B) }()
	vapi.Quiesce()
	fs := c13Decode(key, a)
	vapi.Assert(len(fs) == 3, "C13: three data frames")
	c13CheckSeq(fs)
	for _, f := range fs {
		switch len(f.payload) {
		case 2:
			vapi.Assert(vapi.BytesEq(f.payload, r.chunks[0]), "C13: frame carries what was read")
		case 1:
			vapi.Assert(vapi.BytesEq(f.payload, r.chunks[1]), "C13: frame carries what was read")
		case 3:
			vapi.Assert(vapi.BytesEq(f.payload, B), "C13: frame carries what was written")
		default:
			vapi.Assert(false, "C13: unexpected frame")
		}
	}
	vapi.Reach("readfrom-end")
}

// VerifC13Fail: a failing send may skip a number but never reuses one.
func VerifC13Fail() {
	vapi.RandZero(true)
	key := c04Key()
	sesh, a, _ := c14Session(0, key, 14+255+4, false)
	// a second healthy connection is not needed: a failed write closes the session, later writes are refused
	a.FailWrite = 1 + vapi.Pick("failat", 3)
	st, _ := sesh.OpenStream()
	for i := 0; i < 3; i++ {
		st.Write(vapi.Bytes("w", 1+vapi.Pick("len", 2)))
	}
	fs := c13Decode(key, a)
	for i := range fs {
		for j := i + 1; j < len(fs); j++ {
			vapi.Assert(!(fs[i].streamID == fs[j].streamID && fs[i].seq == fs[j].seq), "C13: a number may be skipped after a failed send but is never reused")
		}
		if i > 0 {
			vapi.Assert(fs[i].seq > fs[i-1].seq, "C13: numbers increase in emission order")
		}
	}
	vapi.Reach("fail-end")
}

// VerifC13Ids: streams opened concurrently get distinct ids; a stream closed locally is never re-created by a late
// peer frame, so its (id, seq) pairs are not put on the wire a second time.
func VerifC13Ids() {
	vapi.SetPreemptBound(1)
	vapi.RandZero(true)
	key := c04Key()
	sesh, a, _ := c14Session(0, key, 14+255+4, false)
	var s1, s2 *Stream
	go func() { s1, _ = sesh.OpenStream(); s1.Write(vapi.Bytes("x", 1)) }()
	go func() { s2, _ = sesh.OpenStream(); s2.Write(vapi.Bytes("y", 1)) }()
	vapi.Quiesce()
	vapi.Assert(s1 != nil && s2 != nil && s1.id != s2.id, "C13: stream ids are distinct")
	s1.Write(vapi.Bytes("x2", 1))
	s1.Close()
	// a data frame of the peer for the same stream id, still in flight when we closed
	late := refEncode(0, key, s1.id, 0, 0, vapi.Bytes("late", 2), nil, vapi.Bytes("tail", 8))
	sesh.recvDataFromRemote(late)
	for len(sesh.acceptCh) > 0 {
		c, _ := sesh.Accept()
		c.Write(vapi.Bytes("z", 1)) // a server would serve an accepted stream
	}
	c13CheckSeq(c13Decode(key, a))
	vapi.Reach("ids-end")
}

// VerifC13ReadFromClose: ReadFrom(r) || Close() on one stream: a chunk read just before the close may still go out
// after the closing frame (the peer drops it), but never under a (stream id, sequence number) pair already used.
func VerifC13ReadFromClose() {
	vapi.SetPreemptBound(vapi.Param("preempt", 2))
	vapi.RandZero(true)
	c13Fine()
	key := c04Key()
	sesh, a, _ := c14Session(0, key, 14+255+4, false)
	st, _ := sesh.OpenStream()
	r := &c13Reader{chunks: [][]byte{vapi.Bytes("R0", 2), vapi.Bytes("R1", 3)}}
	go func() { st.ReadFrom(r) }()
	go func() { st.Close() }()
	vapi.Quiesce()
	fs := c13Decode(key, a)
	c13CheckSeq(fs)
	closeSeen := false
	for _, f := range fs {
		switch len(f.payload) {
		case 2:
			vapi.Assert(vapi.BytesEq(f.payload, r.chunks[0]), "C13: frame carries what was read")
		case 3:
			vapi.Assert(vapi.BytesEq(f.payload, r.chunks[1]), "C13: frame carries what was read")
		default: // the closing notice (1 byte of padding under the harness's zero random source)
			vapi.Assert(f.closing != 0 && !closeSeen, "C13: one closing notice")
			closeSeen = true
		}
	}
	vapi.Assert(closeSeen, "C13: the closing notice is sent")
	vapi.Reach("readfromclose-end")
}
