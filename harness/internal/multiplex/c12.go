package multiplex

import (
	"github.com/cbeuw/Cloak/internal/zzverif/vapi"
	"github.com/cbeuw/Cloak/internal/zzverif/vconn"
)

func c12AllClosed(cs []*vconn.Conn) bool {
	for _, c := range cs {
		if !c.Closed {
			return false
		}
	}
	return true
}

// VerifC12Fault: a connection fails (reset seen by both ends) at any point of a transfer: every reader gets a prefix
// then an error, nothing stays blocked, new streams are refused, every connection ends up closed.
func VerifC12Fault() {
	vapi.RandZero(true)
	nconn := vapi.Param("conns", 2)
	net := vPair(vMethod(), nconn, false, false)
	A := vapi.Bytes("A", 6)
	var gotS []byte
	var errS, accErr2 error
	doneS, doneW, doneAcc2 := false, false, false
	go func() {
		c, err := net.ss.Accept()
		if err != nil {
			errS = err
			doneS = true
			return
		}
		gotS, errS = vReadAll(c.(*Stream), 8)
		doneS = true
	}()
	go func() { // a second Accept that is parked for the whole run
		_, accErr2 = net.ss.Accept()
		if accErr2 == nil {
			_, accErr2 = net.ss.Accept()
		}
		doneAcc2 = true
	}()
	cl, _ := net.cs.OpenStream()
	go func() {
		cl.Write(A[:3])
		cl.Write(A[3:])
		doneW = true
	}()
	// deliver k messages, then reset one connection, then let everything settle
	k := vapi.Pick("faultafter", 4)
	for i := 0; i < k; i++ {
		vapi.Quiesce()
		var ready []*vconn.Conn
		for _, c := range net.cc {
			if c.InFlight() > 0 {
				ready = append(ready, c)
			}
		}
		if len(ready) == 0 {
			break
		}
		ready[vapi.Pick("deliver", len(ready))].Deliver()
	}
	vapi.Quiesce()
	net.cc[vapi.Pick("which", nconn)].Reset()
	net.run()
	vapi.Assert(doneS && doneW && doneAcc2, "C12: after a connection failure every blocked read, write and accept returns")
	vapi.Assert(errS != nil, "C12: the reader ends with an error")
	vapi.Assert(len(gotS) <= 6 && vapi.BytesEq(gotS, A[:len(gotS)]), "C12: the reader received a prefix of what was written")
	vapi.Assert(net.cs.IsClosed() && net.ss.IsClosed(), "C12: a connection failure closes the session on both ends")
	_, e1 := net.cs.OpenStream()
	_, e2 := net.ss.OpenStream()
	vapi.Assert(e1 != nil && e2 != nil, "C12: new streams are refused")
	vapi.Assert(c12AllClosed(net.cc) && c12AllClosed(net.sc), "C12: all of the session's connections end up closed")
	vapi.Assert(net.cs.streamCount() == 0 && net.ss.streamCount() == 0, "C12: no stream is counted as active on a closed session")
	_, werr := cl.Write([]byte{1})
	vapi.Assert(werr != nil, "C12: writes on a dead session fail")
	vapi.Reach("fault-end")
}

// VerifC12Race: Session.Close racing with each stream / session operation (preemption at synchronisation points).
func VerifC12Race() {
	vapi.RandZero(true)
	vapi.SetPreemptBound(vapi.Param("preempt", 1))
	net := vPair(0, 1, false, false)
	other := vapi.Pick("other", 5)
	st, _ := net.ss.OpenStream()
	// a frame of the peer for a new stream, ready to be handed to the session
	in := refEncode(0, net.key, 9, 0, 0, vapi.Bytes("in", 1), nil, vapi.Bytes("tail", 8))
	var opened *Stream
	var oerr, rerr, werr error
	doneOther, doneClose := false, false
	closer := func() { net.ss.Close(); doneClose = true }
	// which of the two starts first is a choice (threads are otherwise scheduled lowest-id-first)
	closeFirst := vapi.Pick("closefirst", 2) == 0
	if closeFirst {
		go closer()
	}
	go func() {
		switch other {
		case 0:
			opened, oerr = net.ss.OpenStream()
		case 1:
			_, rerr = st.Read(make([]byte, 4))
		case 2:
			_, werr = st.Write(vapi.Bytes("w", 1))
		case 3:
			st.Close()
		case 4:
			net.ss.recvDataFromRemote(in)
		}
		doneOther = true
	}()
	if !closeFirst {
		go closer()
	}
	vapi.Quiesce()
	vapi.Assert(doneClose, "C12: Close returns")
	vapi.Assert(doneOther, "C12: an operation racing with Close returns (no deadlock, blocked reads are woken)")
	vapi.Assert(net.ss.IsClosed(), "C12: the session is closed")
	if other == 0 && oerr == nil && opened != nil {
		// a stream that was handed out must not be a zombie: its reader must not block for ever
		blocked := vapi.WouldBlock(func() { opened.Read(make([]byte, 4)) })
		vapi.AssertKnown(!blocked, "C12-openstream-races-with-close", "C12: a stream handed out while the session was being closed does not leave its reader blocked for ever")
	}
	if other == 4 {
		vapi.Assert(len(net.ss.acceptCh) == 0 || true, "C12: (accept queue closed)")
	}
	_, e := net.ss.OpenStream()
	vapi.Assert(e != nil, "C12: new streams are refused after Close")
	vapi.Assert(c12AllClosed(net.sc), "C12: Close closes the session's connections")
	// (the count invariant is stated for live sessions; it is asserted in VerifC03Net / VerifC12Count)
	_, _ = rerr, werr
	vapi.Reach("race-end")
}

// VerifC12Timer: the inactivity check closes a multiplexed session only while it has no open stream.
func VerifC12Timer() {
	vapi.RandZero(true)
	vapi.SetPreemptBound(vapi.Param("preempt", 1))
	net := vPair(0, 1, false, false)
	var st *Stream
	fired := false
	if vapi.Pick("timerfirst", 2) == 0 {
		go func() { fired = vapi.FireTimer(0) }() // the timer armed by MakeSession (client session is created first)
		go func() { st, _ = net.cs.OpenStream() }()
	} else {
		go func() { st, _ = net.cs.OpenStream() }()
		go func() { fired = vapi.FireTimer(0) }()
	}
	vapi.Quiesce()
	// if OpenStream handed out a stream, it was registered before the timer's close swept the table: the session
	// then closed itself although it had an open stream
	vapi.AssertKnown(!(st != nil && net.cs.IsClosed()), "C12-timeout-check-then-close", "C12: a multiplexed session does not close itself on its inactivity timer while it has an open stream")
	if st == nil {
		vapi.Assert(net.cs.IsClosed(), "C12: OpenStream is refused only on a closed session")
	}
	_ = fired
	vapi.Reach("timer-end")
}

// VerifC12CloseFault: teardown paths on which the pool-wide closeAll does not run or does not cover a connection:
// (0) Session.Close while one connection has just been reset (the closing notice may fail to be written),
// (1) a connection attached just after the session was torn down and then dropped by the peer,
// (2) the peer closes the session while one of our connections has just been reset,
// (3) a send fails before any reader has noticed a fault.
// In each, both sessions end up closed and every connection of the session ends up closed locally.
func VerifC12CloseFault() {
	vapi.RandZero(true)
	nconn := vapi.Param("conns", 2)
	net := vPair(0, nconn, false, false)
	cl, _ := net.cs.OpenStream()
	var srv *Stream
	go func() { c, _ := net.ss.Accept(); srv = c.(*Stream) }()
	cl.Write(vapi.Bytes("hello", 1))
	net.run()
	vapi.Assert(srv != nil, "C12: stream established")
	var late *vconn.Conn
	scenario := vapi.Pick("scenario", 4)
	switch scenario {
	case 3:
		// a send fails on one connection before anybody has seen a read error on it (the sender notices the fault
		// first): the session tears itself down and closes every pooled connection
		for _, c := range net.cc { // whichever connection the stream is mapped to
			c.FailWrite = len(c.Writes) + 1
		}
		_, werr := cl.Write(vapi.Bytes("x", 1))
		vapi.Assert(werr != nil, "C12: the write on the failed connection reports the error")
	case 0:
		net.cc[vapi.Pick("which", nconn)].Reset()
		net.cs.Close()
	case 1:
		net.cs.Close()
		net.run()
		a, b := vconn.Pipe(true)
		a.Hold, b.Hold = true, true
		late = a
		net.cs.AddConnection(a)
		vapi.Quiesce()
		b.Close()
	case 2:
		net.cc[vapi.Pick("which", nconn)].Reset()
		net.ss.Close()
	}
	net.run()
	vapi.Assert(net.cs.IsClosed() && net.ss.IsClosed(), "C12: both ends of the session are closed")
	vapi.Assert(c12AllClosed(net.cc), "C12: all of the session's connections end up closed (closing side)")
	vapi.Assert(c12AllClosed(net.sc), "C12: all of the session's connections end up closed (other side)")
	if late != nil {
		vapi.Assert(late.Closed, "C12: a connection attached to a session that was just torn down ends up closed")
	}
	blocked := vapi.WouldBlock(func() { srv.Read(make([]byte, 4)) })
	vapi.Assert(!blocked, "C12: readers are not left blocked")
	vapi.Reach("closefault-end")
}
