package multiplex

import (
	"github.com/cbeuw/Cloak/internal/common"
	"github.com/cbeuw/Cloak/internal/zzverif/vapi"
	"github.com/cbeuw/Cloak/internal/zzverif/vconn"
)

func tlsRecord(body []byte, declared int) []byte {
	return append([]byte{0x17, 0x03, 0x03, byte(declared >> 8), byte(declared)}, body...)
}

// VerifC05Deplex: the byte stream of a connection ends inside a record: the bytes of the unfinished record are never
// handed to the session as a frame (they could parse as one), whatever the cut position; complete records before it
// are delivered.
func VerifC05Deplex() {
	vapi.RandZero(true)
	key := c04Key()
	o, _ := MakeObfuscator(0, key)
	sesh := MakeSession(1, SessionConfig{Obfuscator: o, MsgOnWireSizeLimit: 14 + 255 + 8})
	a, _ := vconn.Pipe(false)
	f1 := refEncode(0, key, 1, 0, 0, vapi.Bytes("p1", 2), nil, vapi.Bytes("t1", 8))
	f2 := refEncode(0, key, 2, 0, 0, vapi.Bytes("p2", 2), nil, vapi.Bytes("t2", 8))
	// second record: declares more than what arrives; what does arrive is (a prefix of, or exactly) a valid frame for stream 2
	extra := 1 + vapi.Pick("extra", 3)
	keep := len(f2) - vapi.Pick("short", 3)
	a.Feed(tlsRecord(f1, len(f1)))
	a.Feed(tlsRecord(f2[:keep], len(f2)+extra))
	a.FeedEOF()
	sesh.AddConnection(common.NewTLSConn(a))
	vapi.Quiesce()
	vapi.Assert(sesh.IsClosed(), "C12: a connection that ends inside a record closes the session")
	n := 0
	for len(sesh.acceptCh) > 0 {
		c, ok := <-sesh.acceptCh
		if !ok {
			break
		}
		n++
		vapi.Assert(c.id == 1, "C05: the bytes of an unfinished record are never delivered as a message")
	}
	vapi.Assert(n == 1, "C05: the complete record before the cut is delivered, the truncated one is not")
	vapi.Reach("deplex-end")
}

// countValve counts what the switchboard meters.
type countValve struct{ rx, tx int64 }

func (v *countValve) rxWait(n int)            {}
func (v *countValve) txWait(n int)            {}
func (v *countValve) AddRx(n int64)           { v.rx += n }
func (v *countValve) AddTx(n int64)           { v.tx += n }
func (v *countValve) GetRx() int64            { return v.rx }
func (v *countValve) GetTx() int64            { return v.tx }
func (v *countValve) Nullify() (int64, int64) { r, t := v.rx, v.tx; v.rx, v.tx = 0, 0; return r, t }

// VerifC16Meter: the bytes metered towards a user's download / upload usage are exactly the bytes that crossed the
// connection pool: a write that fails (at any position in a sequence of writes) or that finds the pool broken is
// not charged; received bytes are charged once.
func VerifC16Meter() {
	vapi.RandZero(true)
	key := c04Key()
	o, _ := MakeObfuscator(0, key)
	v := &countValve{}
	sesh := MakeSession(1, SessionConfig{Obfuscator: o, Valve: v, MsgOnWireSizeLimit: 14 + 255 + 8})
	a, b := vconn.Pipe(true)
	a.FailWrite = vapi.Pick("failat", 5) // 0: never; k: the k-th write fails
	sesh.AddConnection(a)
	st, _ := sesh.OpenStream()
	for i := 0; i < 3; i++ {
		st.Write(vapi.Bytes("w", 1+vapi.Pick("len", 2)))
	}
	st.Close()
	// one frame from the peer
	in := refEncode(0, key, 7, 0, 0, vapi.Bytes("in", 3), nil, vapi.Bytes("tail", 8))
	b.Write(in)
	vapi.Quiesce()
	carried := int64(0)
	for _, w := range a.Writes {
		carried += int64(len(w))
	}
	vapi.Assert(v.GetTx() == carried, "C16: bytes charged as sent = bytes actually written to the user's connections (a failed write is not charged)")
	vapi.Assert(v.GetRx() == int64(a.ReadBytes), "C16: bytes charged as received = bytes actually read from the user's connections")
	vapi.Reach("meter-end")
}

// VerifC02Conc: two frames of one stream handed to the receive buffer at the same time by two connection readers
// (k and k+1, the second a data or a closing frame), every interleaving within the preemption bound with scheduling
// points inside streamBuffer.Write: the reader gets the payloads in sequence order and the close only after them.
func VerifC02Conc() {
	vapi.SetPreemptBound(vapi.Param("preempt", 2))
	vapi.FineGrain("(*github.com/cbeuw/Cloak/internal/multiplex.streamBuffer).Write")
	sb := NewStreamBuffer()
	p0 := vapi.Bytes("p0", 2)
	p1 := vapi.Bytes("p1", 1)
	closing := vapi.Pick("second", 2) == 1
	var c0, c1 bool
	var e0, e1 error
	d0, d1 := false, false
	f1 := &Frame{Seq: 1, Payload: append([]byte{}, p1...)}
	if closing {
		f1.Closing = closingStream
	}
	start := func(first bool) {
		if first {
			go func() { c0, e0 = sb.Write(&Frame{Seq: 0, Payload: append([]byte{}, p0...)}); d0 = true }()
		} else {
			go func() { c1, e1 = sb.Write(f1); d1 = true }()
		}
	}
	if vapi.Pick("order", 2) == 0 {
		start(true)
		start(false)
	} else {
		start(false)
		start(true)
	}
	vapi.Quiesce()
	vapi.Assert(d0 && d1 && e0 == nil && e1 == nil, "C02: both frames are accepted")
	if closing {
		vapi.Assert(c0 != c1, "C02: the close is reported exactly once (by the call that hands over the last lower-numbered frame or the closing frame itself)")
	} else {
		vapi.Assert(!c0 && !c1, "C02: data frames do not close the stream")
	}
	want := append([]byte{}, p0...)
	if !closing {
		want = append(want, p1...)
	}
	got := make([]byte, 8)
	n, err := sb.Read(got)
	vapi.Assert(err == nil && n == len(want), "C02: everything numbered below the closing frame has been handed over when the close takes effect")
	vapi.Assert(n <= 8 && vapi.BytesEq(got[:n], want), "C02: payloads concatenated in sequence-number order")
	vapi.Reach("conc2-end")
}

// gateReader runs hook once, inside its first Read (the caller is parked in r.Read at that moment), then yields data.
type gateReader struct {
	hook func()
	data []byte
	n    int
}

func (r *gateReader) Read(p []byte) (int, error) {
	r.n++
	if r.n == 1 {
		r.hook()
		return copy(p, r.data), nil
	}
	return 0, vconn.ErrClosed
}

// VerifC03ReadFromGate: the stream is closed (locally, or by the peer's closing frame being processed) while the
// relay's ReadFrom is waiting for the local source; what the source delivers afterwards is not sent and ReadFrom fails.
func VerifC03ReadFromGate() {
	vapi.RandZero(true)
	key := c04Key()
	sesh, a, _ := c14Session(0, key, 14+255+4, false)
	st, _ := sesh.OpenStream()
	st.Write(vapi.Bytes("H", 1))
	local := vapi.Pick("closer", 2) == 0
	r := &gateReader{data: vapi.Bytes("late", 2)}
	r.hook = func() {
		if local {
			st.Close()
		} else {
			sesh.recvDataFromRemote(refEncode(0, key, st.id, 0, closingStream, vapi.Bytes("pad", 1), nil, vapi.Bytes("tail", 8)))
		}
	}
	n, err := st.ReadFrom(r)
	vapi.Assert(err == ErrBrokenStream && n == 0, "C03: once the stream is closed the relay's write path fails (nothing is reported as written)")
	fs := c13Decode(key, a)
	for _, f := range fs {
		vapi.Assert(!(len(f.payload) == 2), "C03: bytes arriving from the local source after the close are not sent")
	}
	_, werr := st.Write([]byte{1})
	vapi.Assert(werr == ErrBrokenStream, "C03: writes fail after the close")
	vapi.Reach("gate-end")
}

// VerifC01Split: one Write of every length 0..13 with a per-frame maximum of 4: the frames carry consecutive chunks
// of the buffer (each at most the maximum), so the receiver reassembles exactly what was written.
func VerifC01Split() {
	vapi.RandZero(true)
	key := c04Key()
	method := byte(vapi.Pick("method", vapi.Param("methods", 2)))
	sesh, a, _ := c14Session(method, key, 14+255+4+16*int(method&1)+16*int(method>>1), false)
	maxUnit := sesh.maxStreamUnitWrite
	st, _ := sesh.OpenStream()
	l := vapi.Pick("len", vapi.Param("maxlen", 13)+1)
	in := vapi.Bytes("in", l)
	n, err := st.Write(in)
	vapi.Assert(err == nil && n == l, "C01: the write is accepted whole")
	var got []byte
	seq := uint64(0)
	for _, w := range a.Writes {
		f, derr := refDecode(method, key, w)
		vapi.Assert(derr == nil, "C01: every message decodes")
		vapi.Assert(f.seq == seq && f.closing == 0, "C13: consecutive sequence numbers")
		vapi.Assert(len(f.payload) >= 1 && len(f.payload) <= maxUnit, "C01: each frame carries between 1 byte and the per-frame maximum")
		seq++
		got = append(got, f.payload...)
	}
	vapi.Assert(len(got) == l && vapi.BytesEq(got, in), "C01: the frames of one write carry consecutive chunks of the buffer: reassembly gives exactly the bytes written")
	vapi.Reach("split-end")
}

// VerifC11Flood: a connection that delivers many undecodable messages (through the real deplex loop) keeps being
// read: a valid frame arriving after them on the same connection is processed, the session stays open.
func VerifC11Flood() {
	vapi.RandZero(true)
	vapi.Adversary(true) // nobody but the key holders can produce a message that authenticates
	method := byte(1 + vapi.Pick("method", 3))
	var key [32]byte // concrete key: the junk is then decoded (and refused) by the real primitives
	for i := range key {
		key[i] = byte(11*i + 5)
	}
	o, _ := MakeObfuscator(method, key)
	sesh := MakeSession(1, SessionConfig{Obfuscator: o, MsgOnWireSizeLimit: 14 + 255 + 8 + 16})
	a, b := vconn.Pipe(true)
	sesh.AddConnection(a)
	n := vapi.Param("junk", 12)
	for i := 0; i < n; i++ {
		// undecodable: wrong key (concrete junk of varying length, the ciphers run natively)
		j := make([]byte, 14+3+16+i%5) // never the length of the valid frame below (14+2+16)
		for k := range j {
			j[k] = byte(31*k + 7*i + 3)
		}
		b.Write(j)
	}
	payload := vapi.Bytes("payload", 2)
	b.Write(refEncode(method, key, 1, 0, 0, payload, nil, nil))
	vapi.Quiesce()
	vapi.Assert(!sesh.IsClosed() && !a.Closed, "C11: undecodable messages neither close the session nor the connection")
	vapi.Assert(len(sesh.acceptCh) == 1, "C11: a valid frame after any number of undecodable messages is still processed")
	if len(sesh.acceptCh) == 1 {
		st, _ := sesh.Accept()
		rb := make([]byte, 4)
		r, rerr := st.Read(rb)
		vapi.Assert(rerr == nil && r == 2 && rb[0] == payload[0] && rb[1] == payload[1], "C11: the valid frame's payload is delivered")
	}
	vapi.Reach("flood-end")
}

// VerifC02Many: a long run of frames arrives ahead of one missing lower-numbered frame (a connection that stalls
// while the others keep delivering): nothing is refused or lost however many frames are parked, and once the missing
// frame arrives everything is delivered in order.
func VerifC02Many() {
	n := vapi.Param("n", 1500)
	sb := NewStreamBuffer()
	first := vapi.Bytes("first", 2)
	last := vapi.Bytes("last", 1)
	for i := n; i >= 1; i-- { // descending arrival: every frame is parked
		pl := []byte{byte(i)}
		if i == n {
			pl = last
		}
		_, err := sb.Write(&Frame{Seq: uint64(i), Payload: pl})
		vapi.Assert(err == nil, "C02: a frame ahead of a missing one is kept, however many are already waiting")
		if err != nil {
			return
		}
	}
	_, err := sb.Write(&Frame{Seq: 0, Payload: first})
	vapi.Assert(err == nil, "C02: the missing frame is accepted")
	got := make([]byte, n+8)
	total := 0
	for total < n+2 {
		r, rerr := sb.Read(got[total:])
		vapi.Assert(rerr == nil && r > 0, "C02: everything becomes readable once the gap is filled")
		if rerr != nil || r == 0 {
			break
		}
		total += r
	}
	vapi.Assert(total == n+2, "C02: every payload is delivered exactly once")
	ok := total == n+2 && got[0] == first[0] && got[1] == first[1] && got[n+1] == last[0]
	for i := 1; i < n && ok; i++ {
		if got[i+1] != byte(i) {
			ok = false
		}
	}
	vapi.Assert(ok, "C02: payloads concatenated in sequence-number order")
	vapi.Reach("many-end")
}

// VerifC19Build: the token buckets built for a user's configured rates refill at that rate (within the limiter's
// documented 1% granularity) and hold one second's worth of burst, for small, odd and large rates alike.
func VerifC19Build() {
	rates := []int64{1, 2, 7, 100, 999, 1000, 1001, 1500, 1999, 12345, 65537, 1 << 20, 1<<20 + 1, 16401, 123456789, 1 << 30}
	rate := rates[vapi.Pick("rate", len(rates))]
	v := MakeValve(rate, rate)
	for _, tb := range []interface {
		Rate() float64
		Capacity() int64
	}{v.rxtb, v.txtb} {
		r := tb.Rate()
		d := r - float64(rate)
		if d < 0 {
			d = -d
		}
		vapi.Assert(d <= 0.01*float64(rate), "C19: the bucket refills at the configured rate (1% granularity)")
		vapi.Assert(tb.Capacity() == rate, "C19: the bucket holds one second's worth of the configured rate")
	}
	vapi.Reach("build-end")
}

// VerifC03StalledWrite: the peer's closing frame comes up while a local Write on the same stream is held up inside
// the connection (back-pressure): the close is still processed - the reader gets the bytes and then the
// broken-stream error, the connection reader is not held hostage by the stalled writer.
func VerifC03StalledWrite() {
	vapi.RandZero(true)
	key := c04Key()
	sesh, a, _ := c14Session(0, key, 14+255+4, false)
	st, _ := sesh.OpenStream()
	st.Write(vapi.Bytes("H", 1))
	B := vapi.Bytes("B", 2)
	sesh.recvDataFromRemote(refEncode(0, key, st.id, 0, 0, B, nil, vapi.Bytes("t0", 8)))
	a.StallWrite = true
	wdone, rdone := false, false
	var werr, rerr error
	var got []byte
	go func() { _, werr = st.Write(vapi.Bytes("W", 1)); wdone = true }()
	go func() { got, rerr = vReadAll(st, 4); rdone = true }()
	vapi.Quiesce() // the writer is inside conn.Write, the reader has B and waits for more
	sesh.recvDataFromRemote(refEncode(0, key, st.id, 1, closingStream, vapi.Bytes("pad", 1), nil, vapi.Bytes("t1", 8)))
	vapi.Quiesce()
	vapi.Assert(rdone && rerr == ErrBrokenStream && vapi.BytesEq(got, B), "C03: the reader gets the bytes and then the broken-stream error although a local write is stalled")
	vapi.Assert(st.isClosed(), "C03: the peer's close is processed while a local write is stalled")
	a.Unstall()
	vapi.Quiesce()
	vapi.Assert(wdone, "C03: the stalled write returns once the connection drains")
	_, e := st.Write([]byte{1})
	vapi.Assert(e == ErrBrokenStream, "C03: writes fail once the peer's close has been processed")
	_ = werr
	vapi.Reach("stalled-end")
}
