package multiplex

import (
	"github.com/cbeuw/Cloak/internal/zzverif/vapi"
)

// VerifC01Net: bytes written on ordered streams arrive exactly, in order, per stream, in both directions, whatever
// connection each frame takes and whatever order the connections deliver in.
func VerifC01Net() {
	vapi.RandZero(true)
	vapi.SetPreemptBound(vapi.Param("preempt", 0))
	nconn := vapi.Param("conns", 2)
	nstreams := vapi.Param("streams", 1)
	net := vPair(vMethod(), nconn, false, false)
	names := []string{"A0", "A1", "A2"}
	bnames := []string{"B0", "B1", "B2"}
	type res struct {
		a, b       []byte
		gotA, gotB []byte
		errS, errC error
		doneS      bool
	}
	rs := make([]*res, nstreams)
	alen := vapi.Param("alen", 6)
	blen := vapi.Param("blen", 2)
	// server: accept every stream, read what the client wrote, answer
	go func() {
		for k := 0; k < nstreams; k++ {
			c, err := net.ss.Accept()
			if err != nil {
				return
			}
			st := c.(*Stream)
			var r *res
			for _, x := range rs {
				if x != nil && !x.doneS && len(x.gotA) == 0 {
					_ = x
				}
			}
			// streams are identified by the order the client opened them: ids 1,2,...
			r = rs[int(st.id)-1]
			go func() {
				r.gotA, r.errS = vReadN(st, alen)
				st.Write(r.b)
				r.doneS = true
			}()
		}
	}()
	for k := 0; k < nstreams; k++ {
		rs[k] = &res{a: vapi.Bytes(names[k], alen), b: vapi.Bytes(bnames[k], blen)}
	}
	for k := 0; k < nstreams; k++ {
		st, err := net.cs.OpenStream()
		vapi.Assert(err == nil, "C01: stream opened")
		r := rs[k]
		cut := 1 + vapi.Pick("cut", alen-1) // two writes of every split of the buffer
		go func() {
			_, e1 := st.Write(r.a[:cut])
			_, e2 := st.Write(r.a[cut:])
			if e1 != nil {
				r.errC = e1
			} else if e2 != nil {
				r.errC = e2
			}
			var e3 error
			r.gotB, e3 = vReadN(st, blen)
			if r.errC == nil {
				r.errC = e3
			}
		}()
	}
	net.run()
	for k := 0; k < nstreams; k++ {
		r := rs[k]
		vapi.Assert(r.errC == nil && r.errS == nil, "C01: no operation on a healthy session reports an error")
		vapi.Assert(r.doneS, "C01: the receiver gets all the bytes (nothing lost or stuck)")
		vapi.Assert(vapi.BytesEq(r.gotA, r.a), "C01: the receiver reads exactly the bytes written on that stream, in order")
		vapi.Assert(vapi.BytesEq(r.gotB, r.b), "C01: ... in the other direction as well")
	}
	vapi.Assert(!net.cs.IsClosed() && !net.ss.IsClosed(), "C01: while every connection is healthy the session keeps working")
	vapi.Reach("net-end")
}

// VerifC01Pub: a connection being added while a stream writes (the publish race of switchboard.addConn).
func VerifC01Pub() {
	vapi.RandZero(true)
	vapi.SetPreemptBound(vapi.Param("preempt", 2))
	net := vPair(0, 1, false, false)
	st, _ := net.cs.OpenStream()
	a2, b2 := vconnPipe()
	var werr error
	done := false
	go func() { net.cs.AddConnection(a2) }()
	go func() { _, werr = st.Write(vapi.Bytes("x", 1)); done = true }()
	_ = b2
	vapi.Quiesce()
	vapi.Assert(done, "C01: the write returns")
	vapi.AssertKnown(werr == nil, "C01-addconn-publishes-count-before-conn", "C01: a write racing with AddConnection succeeds (every connection is healthy)")
	vapi.AssertKnown(!net.cs.IsClosed(), "C01-addconn-publishes-count-before-conn", "C01: a session whose connections are all healthy keeps working while a connection is being added")
	vapi.Reach("pub-end")
}

// VerifC01Demux: one received frame with arbitrary stream id / sequence number / closing flag affects only the
// addressed stream (one inductive step of the receive path over a session with two live and one closed stream).
func VerifC01Demux() {
	vapi.RandZero(true)
	key := c04Key()
	o, _ := MakeObfuscator(0, key)
	sesh := MakeSession(1, SessionConfig{Obfuscator: o, MsgOnWireSizeLimit: vLimit})
	ca, _ := vconnPipe()
	sesh.AddConnection(ca)
	// streams 1 and 2 live with some data delivered, stream 3 closed (nil entry)
	for id := uint32(1); id <= 3; id++ {
		msg := refEncode(0, key, id, 0, 0, vapi.Bytes("init", 1), nil, vapi.Bytes("tail", 8))
		sesh.recvDataFromRemote(msg)
	}
	var sts []*Stream
	for len(sesh.acceptCh) > 0 {
		c, _ := sesh.Accept()
		sts = append(sts, c.(*Stream))
	}
	vapi.Assert(len(sts) == 3, "C01: three streams accepted")
	sts[2].Close() // stream 3 closed locally: entry stays as nil
	b := make([]byte, 4)
	sts[0].Read(b)
	sts[1].Read(b)
	before := sesh.streamCount()
	// the step: an arbitrary frame
	sid := vapi.U32("sid")
	seq := vapi.U64("seq")
	vapi.Assume(seq < 4)
	closing := vapi.U8("closing")
	vapi.Assume(closing != closingSession)
	pl := vapi.Bytes("pl", 2)
	msg := refEncode(0, key, sid, seq, closing, pl, nil, vapi.Bytes("tail", 8))
	sesh.recvDataFromRemote(msg)
	// effects
	for i, st := range sts[:2] {
		id := uint32(i + 1)
		if sid == id && seq == 1 && closing == 0 {
			r := make([]byte, 4)
			n, err := st.Read(r)
			vapi.Assert(err == nil && n == 2 && vapi.BytesEq(r[:n], pl), "C01: the addressed stream receives the payload of its next frame")
			vapi.Reach("demux-hit")
		} else if sid == id && seq == 1 && closing != 0 {
			vapi.Assert(st.isClosed(), "C01: an in-order closing frame closes the addressed stream")
		} else {
			vapi.Assert(vapi.WouldBlock(func() { st.Read(make([]byte, 4)) }) || st.isClosed(), "C01: a frame for another stream (or a parked / stale one) delivers nothing here")
			if sid != id {
				vapi.Assert(!st.isClosed(), "C01: a frame for another stream does not close this one")
			}
		}
	}
	if sid == 3 {
		vapi.Assert(len(sesh.acceptCh) == 0 && sesh.streamCount() == before, "C01: a frame for a closed stream id is dropped without creating a stream")
		vapi.Reach("demux-closed")
	}
	if sid != 1 && sid != 2 && sid != 3 {
		vapi.Assert(len(sesh.acceptCh) == 1, "C01: an unknown stream id creates exactly one stream, queued once for Accept")
		if closing != 0 && seq == 0 {
			// opened and closed by the same frame
			vapi.Assert(sesh.streamCount() == before, "C01: a stream opened and closed by one frame leaves the count unchanged")
		} else {
			vapi.Assert(sesh.streamCount() == before+1, "C01: the new stream is counted once")
		}
		vapi.Reach("demux-new")
	}
}
