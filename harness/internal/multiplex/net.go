package multiplex

import (
	"github.com/cbeuw/Cloak/internal/zzverif/vapi"
	"github.com/cbeuw/Cloak/internal/zzverif/vconn"
)

// vNet: two real Sessions wired back to back by n in-memory connections (one Write = one message = one Read, as
// TLSConn provides; byte-level framing is C05's subject). Which connection a frame takes is the switchboard's
// symbolic draw; which connection's reader runs first is a scheduling decision.
type vNet struct {
	cs, ss *Session
	cc, sc []*vconn.Conn
	key    [32]byte
	method byte
}

const vLimit = 14 + 255 + 4 // per-frame payload maximum 4

func vPair(method byte, nconn int, unordered, singleplex bool) *vNet {
	// threads are scheduled deterministically; the order in which the network delivers messages of different
	// connections is an explicit choice (vNet.run), preemptions are bounded separately
	vapi.DetSched(true)
	n := &vNet{method: method, key: c04Key()}
	oc, _ := MakeObfuscator(method, n.key)
	os, _ := MakeObfuscator(method, n.key)
	n.cs = MakeSession(7, SessionConfig{Obfuscator: oc, Unordered: unordered, Singleplex: singleplex, MsgOnWireSizeLimit: vLimit})
	n.ss = MakeSession(7, SessionConfig{Obfuscator: os, Unordered: unordered, MsgOnWireSizeLimit: vLimit})
	for i := 0; i < nconn; i++ {
		a, b := vconn.Pipe(true)
		a.Hold, b.Hold = true, true
		n.cc = append(n.cc, a)
		n.sc = append(n.sc, b)
		n.cs.AddConnection(a)
		n.ss.AddConnection(b)
	}
	return n
}

// vReadN reads exactly want bytes (or until an error) from a stream.
func vReadN(st *Stream, want int) ([]byte, error) {
	buf := make([]byte, want+4)
	got := 0
	for got < want {
		n, err := st.Read(buf[got:])
		got += n
		if err != nil {
			return buf[:got], err
		}
	}
	return buf[:got], nil
}

// vReadAll reads until an error and returns everything read with that error.
func vReadAll(st *Stream, max int) ([]byte, error) {
	buf := make([]byte, max+4)
	got := 0
	for {
		n, err := st.Read(buf[got:])
		got += n
		if err != nil {
			return buf[:got], err
		}
		if got > max {
			return buf[:got], nil
		}
	}
}

func vMethod() byte {
	ms := []byte{0, 1, 2, 3}
	return ms[vapi.Pick("method", vapi.Param("methods", 2))]
}

// run lets everything proceed until all goroutines are blocked and nothing is in flight; whenever several
// connections have a message in flight, which one arrives next is a choice (every cross-connection arrival
// interleaving, per-connection FIFO).
func (n *vNet) run() {
	for {
		vapi.Quiesce()
		var ready []*vconn.Conn
		for _, c := range n.cc {
			if c.InFlight() > 0 {
				ready = append(ready, c)
			}
		}
		for _, c := range n.sc {
			if c.InFlight() > 0 {
				ready = append(ready, c)
			}
		}
		if len(ready) == 0 {
			return
		}
		ready[vapi.Pick("deliver", len(ready))].Deliver()
	}
}
