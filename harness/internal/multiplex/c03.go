package multiplex

import (
	"github.com/cbeuw/Cloak/internal/zzverif/vapi"
)

// vOpenCount: number of streams of the session that are open (registered and not closed).
func vOpenCount(s *Session) int {
	n := 0
	s.streamsM.Lock()
	for _, st := range s.streams {
		if st != nil && !st.isClosed() {
			n++
		}
	}
	s.streamsM.Unlock()
	return n
}

// VerifC03Net: one side writes B then closes; the other reads exactly B and only then the broken-stream error,
// whichever connections the data and the closing notice travel on and in whatever order they arrive.
func VerifC03Net() {
	vapi.RandZero(true)
	nconn := vapi.Param("conns", 2)
	single := vapi.Param("singleplex", 0) == 1
	net := vPair(vMethod(), nconn, false, single)
	blens := []int{0, 1, 5}
	blen := blens[vapi.Pick("blen", len(blens))]
	B := vapi.Bytes("B", blen)
	closerIsOpener := vapi.Pick("closer", 2) == 0
	req := vapi.Bytes("req", 1)

	var srv *Stream
	var gotS, gotC []byte
	var errS, errC error
	doneS, doneC := false, false
	cl, _ := net.cs.OpenStream()
	if closerIsOpener {
		// opener: write B, close. accepter: read until error.
		go func() {
			c, err := net.ss.Accept()
			if err != nil {
				errS = err
				doneS = true
				return
			}
			srv = c.(*Stream)
			gotS, errS = vReadAll(srv, blen+2)
			doneS = true
		}()
		go func() {
			if blen > 0 {
				cl.Write(B)
			}
			cl.Close()
			doneC = true
		}()
		net.run()
		vapi.Assert(doneS && doneC, "C03: nothing stays blocked")
		vapi.Assert(errS == ErrBrokenStream, "C03: the reader gets the broken-stream error after the data")
		vapi.Assert(vapi.BytesEq(gotS, B), "C03: the reader gets exactly the bytes written before the close: no early end, no lost tail")
		if srv != nil {
			_, werr := srv.Write([]byte{1})
			vapi.Assert(werr != nil, "C03: writes fail once the peer's close has been processed")
		}
		_, werr := cl.Write([]byte{1})
		vapi.Assert(werr != nil, "C03: writes fail on a stream closed locally")
		vapi.Reach("opener-closes")
	} else {
		// opener sends a request and reads; accepter reads the request, answers B (possibly nothing) and closes
		go func() {
			c, err := net.ss.Accept()
			if err != nil {
				doneS = true
				return
			}
			srv = c.(*Stream)
			vReadN(srv, 1)
			if blen > 0 {
				srv.Write(B)
			}
			srv.Close()
			doneS = true
		}()
		go func() {
			cl.Write(req)
			gotC, errC = vReadAll(cl, blen+2)
			doneC = true
		}()
		net.run()
		vapi.Assert(doneS && doneC, "C03: a reader blocked on the stream returns when the peer closes it")
		vapi.Assert(errC == ErrBrokenStream, "C03: the reader gets the broken-stream error after the data")
		vapi.Assert(vapi.BytesEq(gotC, B), "C03: the reader gets exactly the bytes written before the close (including none)")
		if !single {
			_, werr := cl.Write([]byte{1})
			vapi.Assert(werr != nil, "C03: writes fail once the peer's close has been processed")
		}
		vapi.Reach("accepter-closes")
	}
	if !single {
		vapi.Assert(int(net.cs.streamCount()) == vOpenCount(net.cs) && int(net.ss.streamCount()) == vOpenCount(net.ss), "C12: the active-stream count equals the number of open streams at quiescence")
	}
}

// VerifC03Local: bytes that had already arrived stay readable after a local Close; frames for a locally closed
// stream are dropped.
func VerifC03Local() {
	vapi.RandZero(true)
	net := vPair(0, 1, false, false)
	cl, _ := net.cs.OpenStream()
	A := vapi.Bytes("A", 3)
	var srv *Stream
	go func() {
		c, _ := net.ss.Accept()
		srv = c.(*Stream)
	}()
	cl.Write(A)
	net.run()
	vapi.Assert(srv != nil, "C03: stream accepted")
	srv.Close() // local close with 3 unread bytes
	b := make([]byte, 8)
	n, err := srv.Read(b)
	vapi.Assert(err == nil && n == 3 && vapi.BytesEq(b[:n], A), "C03: bytes that had already arrived remain readable after a local Close")
	_, err = srv.Read(b)
	vapi.Assert(err == ErrBrokenStream, "C03: then the broken-stream error")
	// the peer keeps writing for a moment: those frames are dropped and do not resurrect the stream
	cl.Write(vapi.Bytes("late", 1))
	net.run()
	vapi.Assert(len(net.ss.acceptCh) == 0, "C03: a frame for a locally closed stream creates no new stream")
	vapi.Reach("local-end")
}

// VerifC03Both: both sides write and close at once: each reads a prefix of the other's bytes, then the error.
func VerifC03Both() {
	vapi.RandZero(true)
	net := vPair(0, vapi.Param("conns", 2), false, false)
	cl, _ := net.cs.OpenStream()
	A := vapi.Bytes("A", 2)
	B := vapi.Bytes("B", 2)
	var gotS, gotC []byte
	var errS, errC error
	doneS, doneC := false, false
	cl.Write(vapi.Bytes("hello", 1))
	var srv *Stream
	go func() { c, _ := net.ss.Accept(); srv = c.(*Stream) }()
	net.run()
	vReadN(srv, 1)
	go func() { srv.Write(B); srv.Close(); gotS, errS = vReadAll(srv, 4); doneS = true }()
	go func() { cl.Write(A); cl.Close(); gotC, errC = vReadAll(cl, 4); doneC = true }()
	net.run()
	vapi.Assert(doneS && doneC, "C03: simultaneous closes leave nothing blocked")
	vapi.Assert(errS == ErrBrokenStream && errC == ErrBrokenStream, "C03: both readers end with the broken-stream error")
	vapi.Assert(len(gotS) <= 2 && vapi.BytesEq(gotS, A[:len(gotS)]), "C03: each side reads a prefix of the other's bytes")
	vapi.Assert(len(gotC) <= 2 && vapi.BytesEq(gotC, B[:len(gotC)]), "C03: each side reads a prefix of the other's bytes")
	vapi.Reach("both-end")
}

// VerifC03WriteClose: Write(T) || Close() on one stream, every interleaving within the preemption bound. A write that
// reports success was numbered before the closing frame (so the peer, which applies frames in sequence order,
// delivers it before the end: no lost tail); a write that lost the race fails; after Close has returned writes fail.
func VerifC03WriteClose() {
	vapi.SetPreemptBound(vapi.Param("preempt", 2))
	vapi.RandZero(true)
	c13Fine()
	key := c04Key()
	sesh, a, _ := c14Session(0, key, 14+255+4, false)
	st, _ := sesh.OpenStream()
	st.Write(vapi.Bytes("H", 2))
	T := vapi.Bytes("T", 3)
	var errW error
	var nW int
	doneW, doneC := false, false
	go func() { nW, errW = st.Write(T); doneW = true }()
	go func() { st.Close(); doneC = true }()
	vapi.Quiesce()
	vapi.Assert(doneW && doneC, "C03: Write and Close return")
	fs := c13Decode(key, a)
	closeAt, tailAt := -1, -1
	for i, f := range fs {
		if f.closing != 0 {
			closeAt = i
		} else if len(f.payload) == 3 {
			tailAt = i
			vapi.Assert(vapi.BytesEq(f.payload, T), "C03: the frame carries the written bytes")
		}
	}
	vapi.Assert(closeAt >= 0, "C03: the closing notice is sent")
	if errW == nil {
		vapi.Assert(nW == 3 && tailAt >= 0, "C03: a successful write was sent")
		vapi.Assert(tailAt >= 0 && closeAt >= 0 && fs[tailAt].seq < fs[closeAt].seq, "C03: a write that reported success is numbered before the closing notice (no lost tail)")
	} else {
		vapi.Assert(tailAt < 0, "C03: a refused write sends nothing")
	}
	for i, f := range fs {
		vapi.Assert(i == closeAt || closeAt < 0 || f.seq < fs[closeAt].seq, "C03: nothing is numbered after the closing notice")
	}
	_, err := st.Write([]byte{1})
	vapi.Assert(err == ErrBrokenStream, "C03: writes fail on a stream closed locally")
	vapi.Reach("writeclose-end")
}
