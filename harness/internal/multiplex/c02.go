package multiplex

import (
	"github.com/cbeuw/Cloak/internal/zzverif/vapi"
)

// VerifC02Perm: n data frames (+ optional closing frame) delivered once each in every arrival order through one reused
// receive buffer (one data frame may be empty), the reader draining at arbitrary moments; symbolic base sequence number and payload bytes.
func VerifC02Perm() {
	n := vapi.Param("n", 3)
	rdChoices := vapi.Param("rd", 3)
	withClose := vapi.Pick("close", 2) == 1
	s0 := vapi.U64("s0")
	vapi.Assume(s0 < 1<<63)
	sb := NewStreamBuffer()
	sb.nextRecvSeq = s0

	payloads := make([][]byte, n)
	var expected []byte
	names := []string{"p0", "p1", "p2", "p3", "p4", "p5", "p6", "p7"}
	// one of the data frames (or none) is empty: it carries no bytes but still uses up its sequence number
	emptyAt := vapi.Pick("empty", n+1)
	for i := range payloads {
		l := 1 + i%2
		if i == emptyAt {
			l = 0
		}
		payloads[i] = vapi.Bytes(names[i], l)
		expected = append(expected, payloads[i]...)
	}
	m := n
	if withClose {
		m = n + 1
	}
	remaining := make([]int, m)
	for i := range remaining {
		remaining[i] = i
	}
	shared := make([]byte, 2)
	delivered := make([]bool, m)
	var got []byte
	for step := 0; step < m; step++ {
		k := vapi.Pick("ord", len(remaining))
		idx := remaining[k]
		remaining = append(remaining[:k], remaining[k+1:]...)
		f := &Frame{Seq: s0 + uint64(idx)}
		if idx == n {
			f.Closing = closingStream
			shared[0] = vapi.U8("closepad")
			f.Payload = shared[:1]
		} else {
			copy(shared, payloads[idx])
			f.Payload = shared[:len(payloads[idx])]
		}
		toClose, err := sb.Write(f)
		vapi.Assert(err == nil, "C02: in-window frame accepted")
		delivered[idx] = true
		c := 0
		for c < m && delivered[c] {
			c++
		}
		wantClose := withClose && c == m
		vapi.Assert(toClose == wantClose, "C02: close reported exactly when every lower-numbered frame has been handed over")
		// the receive buffer is reused by the connection reader: overwrite it
		shared[0] = vapi.U8("junk")
		shared[1] = vapi.U8("junk")

		dc := c
		if dc > n {
			dc = n
		}
		avail := 0
		for i := 0; i < dc; i++ {
			avail += len(payloads[i])
		}
		avail -= len(got)
		if avail > 0 {
			switch vapi.Pick("rd", rdChoices) {
			case 1:
				b := make([]byte, 1)
				r, err := sb.Read(b)
				vapi.Assert(err == nil && r == 1, "C02: one byte readable")
				got = append(got, b[:r]...)
			case 2:
				b := make([]byte, avail+1)
				r, err := sb.Read(b)
				vapi.Assert(err == nil && r == avail, "C02: read returns exactly the bytes in order so far")
				got = append(got, b[:r]...)
			}
		}
	}
	rest := len(expected) - len(got)
	if rest > 0 {
		b := make([]byte, rest+2)
		r, err := sb.Read(b)
		vapi.Assert(err == nil && r == rest, "C02: final read returns the outstanding bytes without blocking")
		got = append(got, b[:r]...)
	}
	vapi.Assert(len(got) == len(expected), "C02: total length")
	vapi.Assert(vapi.BytesEq(got, expected), "C02: payloads concatenated in sequence-number order")
	vapi.Reach("perm-end")
}

// VerifC02Block: after everything has been read a further Read blocks (no phantom data), and a late duplicate of an
// already-consumed sequence number is refused without effect.
func VerifC02Block() {
	s0 := vapi.U64("s0")
	vapi.Assume(s0 < 1<<63)
	sb := NewStreamBuffer()
	sb.nextRecvSeq = s0
	p0 := vapi.Bytes("p0", 1)
	p1 := vapi.Bytes("p1", 1)
	first := vapi.Pick("first", 2)
	if first == 0 {
		sb.Write(&Frame{Seq: s0, Payload: p0})
		sb.Write(&Frame{Seq: s0 + 1, Payload: p1})
	} else {
		sb.Write(&Frame{Seq: s0 + 1, Payload: p1})
		sb.Write(&Frame{Seq: s0, Payload: p0})
	}
	b := make([]byte, 4)
	r, _ := sb.Read(b)
	vapi.Assert(r == 2 && b[0] == p0[0] && b[1] == p1[0], "C02: both bytes in order")
	_, err := sb.Write(&Frame{Seq: s0, Payload: vapi.Bytes("dup", 1)})
	vapi.Assert(err != nil, "C02: stale sequence number refused")
	blocked := vapi.WouldBlock(func() { sb.Read(b) })
	vapi.Assert(blocked, "C02: nothing further to read")
	vapi.Reach("block-end")
}
