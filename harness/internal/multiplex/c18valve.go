package multiplex

import (
	"github.com/cbeuw/Cloak/internal/zzverif/vapi"
)

// VerifC18Valve: the token buckets of a new active user can be built for every rate class the admin API can store.
func VerifC18Valve() {
	rates := []int64{-1 << 63, -1, 0, 1, 2, 1000, 12345, 1 << 20, 1 << 40, 1<<63 - 1}
	up := rates[vapi.Pick("up", len(rates))]
	down := rates[vapi.Pick("down", len(rates))]
	panicked := vapi.Catch(func() { MakeValve(up, down) })
	if up <= 0 || down <= 0 {
		// not a rate the connection path can pass on (userPanel.GetUser refuses it; see VerifC18Connect)
		vapi.Reach("valve-nonpos")
	} else {
		vapi.Assert(!panicked, "C18: building the rate limiter of a user with positive rates does not panic")
		vapi.Reach("valve-pos")
	}
}
