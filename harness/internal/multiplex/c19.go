package multiplex

import (
	"github.com/cbeuw/Cloak/internal/zzverif/vapi"
)

// 10^9 and 5*10^8 B/s have a 1 ns fill interval; 976562, 244140 and 61035 B/s make the library choose fill
// intervals of 1024, 4096 and 16384 ns (tick arithmetic = division by a power of two)
var c19Rates = []int64{1000000000, 500000000, 976562, 244140, 61035}

// c19Bound checks, for every pair i<=j of write instants, that the bytes written in [w_i, w_j] do not exceed
// rate*(w_j-w_i) + one second of burst (+ one fill quantum of rounding). nsPerByte = 1e9/rate.
func c19Bound(n []int, w []int64, order func(a, b int) bool, capacity int64, nsPerByte int64, known bool) {
	for i := range n {
		for j := range n {
			// interval [w_i, w_j] with w_i <= w_j: sum the messages written inside it
			sum := int64(0)
			for m := range n {
				in := vapi.And(w[i] <= w[m], w[m] <= w[j])
				sum += int64(vapi.IteInt(in, n[m], 0))
			}
			ok := vapi.Implies(w[i] <= w[j], sum*nsPerByte <= (w[j]-w[i])+capacity*nsPerByte+nsPerByte)
			if known {
				vapi.AssertKnown(ok, "C19-message-larger-than-burst", "C19: bytes in any interval <= rate*t + one second of burst (a single message larger than the burst allowance is written in one piece)")
			} else {
				vapi.Assert(ok, "C19: bytes written in any interval never exceed rate*t + one second's worth of burst")
			}
		}
	}
}

// VerifC19Seq: one sender, k messages of arbitrary sizes at arbitrary non-decreasing instants.
func VerifC19Seq() {
	ri := vapi.Param("ratebase", 0) + vapi.Pick("rate", vapi.Param("rates", 2))
	rate := c19Rates[ri]
	nsPerByte := 1000000000 / rate
	v := MakeValve(rate, rate)
	k := vapi.Param("k", 3)
	n := make([]int, k)
	w := make([]int64, k)
	big := false
	maxN := 1<<31 - 1
	if vapi.Param("framesized", 0) == 1 {
		maxN = 16401
	}
	tx := vapi.Pick("dir", 2) == 0
	for i := 0; i < k; i++ {
		vapi.AdvanceClock(int64(vapi.Range("gap", 0, 1<<40)))
		n[i] = vapi.Range("n", 1, maxN)
		big = vapi.Or(big, int64(n[i]) > rate)
		if tx {
			v.txWait(n[i])
		} else {
			v.rxWait(n[i])
		}
		w[i] = vapi.Clock()
	}
	if big {
		c19Bound(n, w, nil, rate, nsPerByte, true)
		vapi.Reach("seq-big")
	} else {
		c19Bound(n, w, nil, rate, nsPerByte, false)
		vapi.Reach("seq-small")
	}
}

// VerifC19Backlog: a backlogged sender starting from a full bucket is not held below the rate.
func VerifC19Backlog() {
	ri := vapi.Param("ratebase", 0) + vapi.Pick("rate", vapi.Param("rates", 2))
	rate := c19Rates[ri]
	nsPerByte := 1000000000 / rate
	v := MakeValve(rate, rate)
	k := vapi.Param("k", 3)
	t0 := vapi.Clock()
	total := int64(0)
	for i := 0; i < k; i++ {
		n := vapi.Range("n", 1, 1<<31-1)
		v.txWait(n)
		total += int64(n)
		over := total - rate
		late := vapi.Clock() - t0
		vapi.Assert(vapi.Implies(over <= 0, late == 0), "C19: while the burst allowance lasts a backlogged sender is not delayed")
		vapi.Assert(vapi.Implies(over > 0, late <= over*nsPerByte+nsPerByte), "C19: a backlogged sender is not held below the configured rate")
	}
	vapi.Reach("backlog-end")
}

// VerifC19Conc: several sessions/connections of one user share the bucket: concurrent senders, each message at most
// one second's worth, discrete-event virtual clock (each sleeper wakes exactly on time).
func VerifC19Conc() {
	vapi.TimedSleep(true)
	rate := c19Rates[0]
	v := MakeValve(rate, rate)
	k := vapi.Param("senders", 4)
	n := make([]int, k)
	w := make([]int64, k)
	done := 0
	names := []string{"n0", "n1", "n2", "n3", "n4", "n5"}
	for i := 0; i < k; i++ {
		n[i] = vapi.Range(names[i], 1, int(rate))
	}
	for i := 0; i < k; i++ {
		i := i
		go func() {
			v.txWait(n[i])
			w[i] = vapi.Clock()
			done++
		}()
	}
	vapi.Quiesce()
	vapi.Assert(done == k, "C19: every sender gets through")
	c19Bound(n, w, nil, rate, 1, false)
	vapi.Reach("conc-end")
}

// VerifC19Order: every outgoing message waits for its tokens before it is written, every incoming read before it is
// processed, and both are metered once.
func VerifC19Order() {
	vapi.TimedSleep(true)
	vapi.RandIntSmall(true)
	rate := c19Rates[0]
	v := MakeValve(rate, rate)
	key := c04Key()
	o, _ := MakeObfuscator(0, key)
	sesh := MakeSession(1, SessionConfig{Obfuscator: o, Valve: v, MsgOnWireSizeLimit: 14 + 255 + 4})
	a, b := vconnPipe()
	sesh.AddConnection(a)
	// exhaust both buckets at t0
	v.txWait(int(rate))
	v.rxWait(int(rate))
	t0 := vapi.Clock()
	st, _ := sesh.OpenStream()
	done := false
	go func() {
		st.Write(vapi.Bytes("pl", 1))
		done = true
	}()
	vapi.Quiesce()
	vapi.Assert(done && len(a.Writes) == 1, "C19: the message is written once its tokens are available")
	L := int64(len(a.Writes[0]))
	vapi.Assert(a.WriteClock[0] >= t0+L, "C19: an outgoing message is not written before its tokens have been waited for")
	vapi.Assert(v.GetTx() == L, "C19: outgoing bytes metered once")
	// incoming: a frame for a new stream arrives on the connection
	msg := refEncode(0, key, 9, 0, 0, vapi.Bytes("in", 2), nil, vapi.Bytes("tail", 8))
	v.rxWait(int(rate)) // waits until the receive bucket has refilled, and leaves it empty at t1
	t1 := vapi.Clock()
	b.Write(msg)
	vapi.Quiesce()
	vapi.Assert(len(sesh.acceptCh) == 1, "C19: the incoming frame is processed")
	vapi.Assert(vapi.Clock() >= t1+int64(len(msg)), "C19: an incoming message is not processed before its tokens have been waited for")
	vapi.Assert(v.GetRx() == int64(len(msg)), "C19: incoming bytes metered once")
	_ = t0
	vapi.Reach("order-end")
}
