package multiplex

import (
	"github.com/cbeuw/Cloak/internal/zzverif/vapi"
)

func c04Key() [32]byte {
	var key [32]byte
	copy(key[:], vapi.Bytes("key", 32))
	return key
}

// VerifC04Len: length arithmetic for ALL payload lengths and on-wire limits (contents abstract).
func VerifC04Len() {
	method := byte(vapi.Pick("method", 4))
	o, err := MakeObfuscator(method, c04Key())
	vapi.Assert(err == nil, "C04: obfuscator for a supported method")
	limit := vapi.Range("limit", 270, 65535)
	sesh := MakeSession(0, SessionConfig{Obfuscator: o, MsgOnWireSizeLimit: limit})
	maxUnit := sesh.maxStreamUnitWrite
	vapi.Assume(maxUnit >= 1)
	plen := vapi.Range("plen", 1, maxUnit)
	payload := vapi.AbstractBytes("payload", 70000)[:plen]
	f := &Frame{StreamID: vapi.U32("sid"), Seq: vapi.U64("seq"), Closing: vapi.U8("closing"), Payload: payload}
	buf := vapi.AbstractBytes("buf", 70000)[:sesh.streamSendBufferSize]
	tagLen := 16
	if method == 0 {
		tagLen = 8
	}
	var n int
	panicked := vapi.Catch(func() { n, err = o.obfuscate(f, buf, 0) })
	vapi.Assert(!panicked, "C04: obfuscate never panics for a payload up to the per-frame maximum")
	vapi.Assert(err == nil, "C04: a payload up to the per-frame maximum always fits the send buffer")
	vapi.Assert(n <= limit, "C04: encoded message never exceeds the configured on-wire size limit")
	vapi.Assert(n >= 14+plen+tagLen, "C04: encoded length covers header, payload and tag")
	vapi.Assert(n <= 14+plen+255, "C04: padding plus tag fit the one-byte extra-length field")
	// decoding any message of that length never panics
	var g Frame
	panicked = vapi.Catch(func() { _ = o.deobfuscate(&g, buf[:n]) })
	vapi.Assert(!panicked, "C04: deobfuscate never panics on a message of encoded length")
	vapi.Reach("len-end")
}

// VerifC04LenDefault: same, with the two limits used in production (client/server 16401, library default 16640).
func VerifC04LenDefault() {
	method := byte(vapi.Pick("method", 4))
	o, _ := MakeObfuscator(method, c04Key())
	limit := 16401
	if vapi.Pick("limit", 2) == 1 {
		limit = 0 // default
	}
	sesh := MakeSession(0, SessionConfig{Obfuscator: o, MsgOnWireSizeLimit: limit})
	vapi.Assert(sesh.MsgOnWireSizeLimit <= 1<<14+256, "C04: on-wire limit at most 2^14+256")
	plen := vapi.Range("plen", 1, sesh.maxStreamUnitWrite)
	payload := vapi.AbstractBytes("payload", 70000)[:plen]
	f := &Frame{StreamID: vapi.U32("sid"), Seq: vapi.U64("seq"), Closing: vapi.U8("closing"), Payload: payload}
	buf := vapi.AbstractBytes("buf", 70000)[:sesh.streamSendBufferSize]
	n, err := o.obfuscate(f, buf, 0)
	vapi.Assert(err == nil, "C04: fits")
	vapi.Assert(n <= sesh.MsgOnWireSizeLimit, "C04: encoded message never exceeds the on-wire limit")
	// closing notices: payload of 1..256 random bytes placed at offset 14
	pad := vapi.Range("padlen", 1, 256)
	f2 := &Frame{StreamID: vapi.U32("sid2"), Seq: vapi.U64("seq2"), Closing: closingStream, Payload: buf[frameHeaderLength : pad+frameHeaderLength]}
	n, err = o.obfuscate(f2, buf, frameHeaderLength)
	vapi.Assert(err == nil, "C04: closing notice fits")
	vapi.Assert(n <= sesh.MsgOnWireSizeLimit, "C04: closing notice within limit")
	vapi.Assert(n > 0, "C04: non-empty")
	vapi.Reach("lendef-end")
}

// VerifC04RT: contents. deobfuscate(obfuscate(f)) == f for small payloads, every padding draw, every method.
func VerifC04RT() {
	vapi.ConcLimit(256)
	vapi.RandIntEdges(vapi.Param("allpads", 0) == 0)
	method := byte(vapi.Pick("method", 4))
	key := c04Key()
	o, _ := MakeObfuscator(method, key)
	plen := 1 + vapi.Pick("plen", vapi.Param("maxplen", 2))
	payload := vapi.Bytes("payload", plen)
	sid := vapi.U32("sid")
	seq := vapi.U64("seq")
	closing := vapi.U8("closing")
	f := &Frame{StreamID: sid, Seq: seq, Closing: closing, Payload: payload}
	buf := make([]byte, 14+plen+255)
	inplace := vapi.Pick("inplace", 2) == 1
	off := 0
	if inplace {
		copy(buf[frameHeaderLength:], payload)
		f.Payload = buf[frameHeaderLength : frameHeaderLength+plen]
		off = frameHeaderLength
	}
	n, err := o.obfuscate(f, buf, off)
	vapi.Assert(err == nil, "C04: obfuscate succeeds")
	// the padding length the implementation drew is n - 14 - plen - tagLen; concretise it (forks over draws)
	n = vapi.Concretize(n)
	msg := buf[:n]

	// (a) own decoder
	cp := make([]byte, n)
	copy(cp, msg)
	var g Frame
	err = o.deobfuscate(&g, cp)
	vapi.Assert(err == nil, "C04: own decoder accepts own encoding")
	vapi.Assert(g.StreamID == sid && g.Seq == seq && g.Closing == closing, "C04: header fields round-trip")
	vapi.Assert(len(g.Payload) == plen, "C04: payload length round-trips")
	vapi.Assert(vapi.BytesEq(g.Payload, payload), "C04: payload bytes round-trip")

	// (b) independent decoder of the v2 layout
	rf, rerr := refDecode(method, key, msg)
	vapi.Assert(rerr == nil, "C04: reference v2 decoder accepts the implementation's bytes")
	vapi.Assert(rf.streamID == sid && rf.seq == seq && rf.closing == closing, "C04: reference decoder sees the same header")
	vapi.Assert(len(rf.payload) == plen, "C04: reference decoder sees the same payload length")
	vapi.Assert(vapi.BytesEq(rf.payload, payload), "C04: reference decoder sees the same payload")
	vapi.Reach("rt-end")
}

// VerifC04Ref: the implementation decodes what an independent encoder of the v2 layout produces.
func VerifC04Ref() {
	method := byte(vapi.Pick("method", 4))
	key := c04Key()
	o, _ := MakeObfuscator(method, key)
	plen := 1 + vapi.Pick("plen", vapi.Param("maxplen", 2))
	payload := vapi.Bytes("payload", plen)
	maxPad := 239
	if method == 0 {
		maxPad = 247
	}
	padChoices := []int{0, 1, maxPad}
	padLen := padChoices[vapi.Pick("pad", 3)]
	pad := vapi.Bytes("pad", padLen)
	tail := vapi.Bytes("tail", 8)
	sid := vapi.U32("sid")
	seq := vapi.U64("seq")
	closing := vapi.U8("closing")
	msg := refEncode(method, key, sid, seq, closing, payload, pad, tail)
	var g Frame
	err := o.deobfuscate(&g, msg)
	vapi.Assert(err == nil, "C04: implementation accepts a frame produced by an independent v2 encoder")
	vapi.Assert(g.StreamID == sid && g.Seq == seq && g.Closing == closing, "C04: header decoded as sent by the reference")
	vapi.Assert(len(g.Payload) == plen, "C04: payload length decoded as sent by the reference")
	vapi.Assert(vapi.BytesEq(g.Payload, payload), "C04: payload decoded as sent by the reference")
	vapi.Reach("ref-end")
}
