package multiplex

// Reference implementation of the Cloak v2 frame layout, written from the format description
// (not from obfs.go): StreamID(4) | Seq(8) | Closing(1) | extraLen(1), big endian; payload followed by padding;
// AEAD methods seal payload||padding with nonce = the 12 first header bytes under the session key (first 16 key
// bytes for AES-128-GCM), no associated data, tag appended; header XORed with the Salsa20 keystream under the
// 32-byte session key with the LAST 8 bytes of the message as nonce; plain: 8 random bytes are appended and serve as that nonce.

import (
	"crypto/aes"
	"crypto/cipher"
	"errors"

	"golang.org/x/crypto/chacha20poly1305"
	"golang.org/x/crypto/salsa20"
)

func refAEAD(method byte, key [32]byte) cipher.AEAD {
	switch method {
	case 1:
		b, _ := aes.NewCipher(key[:])
		a, _ := cipher.NewGCM(b)
		return a
	case 3:
		b, _ := aes.NewCipher(key[:16])
		a, _ := cipher.NewGCM(b)
		return a
	case 2:
		a, _ := chacha20poly1305.New(key[:])
		return a
	}
	return nil
}

// refEncode: pad is the padding (len 0..239 / 0..247), tail8 the 8 random trailing bytes used in plain mode.
func refEncode(method byte, key [32]byte, streamID uint32, seq uint64, closing byte, payload, pad, tail8 []byte) []byte {
	hdr := make([]byte, 14)
	hdr[0] = byte(streamID >> 24)
	hdr[1] = byte(streamID >> 16)
	hdr[2] = byte(streamID >> 8)
	hdr[3] = byte(streamID)
	for i := 0; i < 8; i++ {
		hdr[4+i] = byte(seq >> uint(56-8*i))
	}
	hdr[12] = closing
	var body []byte
	body = append(body, payload...)
	body = append(body, pad...)
	a := refAEAD(method, key)
	if a != nil {
		hdr[13] = byte(len(pad) + 16)
		body = a.Seal(nil, hdr[:12], body, nil)
	} else {
		hdr[13] = byte(len(pad) + 8)
		body = append(body, tail8...)
	}
	nonce := body[len(body)-8:]
	out := make([]byte, 14)
	salsa20.XORKeyStream(out, hdr, nonce, &key)
	out = append(out, body...)
	return out
}

type refFrame struct {
	streamID uint32
	seq      uint64
	closing  byte
	payload  []byte
}

func refDecode(method byte, key [32]byte, msg []byte) (refFrame, error) {
	var f refFrame
	if len(msg) < 14+8 {
		return f, errors.New("short")
	}
	hdr := make([]byte, 14)
	salsa20.XORKeyStream(hdr, msg[:14], msg[len(msg)-8:], &key)
	f.streamID = uint32(hdr[0])<<24 | uint32(hdr[1])<<16 | uint32(hdr[2])<<8 | uint32(hdr[3])
	for i := 0; i < 8; i++ {
		f.seq = f.seq<<8 | uint64(hdr[4+i])
	}
	f.closing = hdr[12]
	extra := int(hdr[13])
	body := msg[14:]
	a := refAEAD(method, key)
	if a != nil {
		pt, err := a.Open(nil, hdr[:12], body, nil)
		if err != nil {
			return f, err
		}
		// pt = payload || padding ; extra counts padding + 16
		n := len(body) - extra
		if n < 0 || n > len(pt) {
			return f, errors.New("bad extra")
		}
		f.payload = pt[:n]
		return f, nil
	}
	n := len(body) - extra
	if n < 0 {
		return f, errors.New("bad extra")
	}
	f.payload = body[:n]
	return f, nil
}
