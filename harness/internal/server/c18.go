package server

import (
	"github.com/cbeuw/Cloak/internal/server/usermanager"
	"github.com/cbeuw/Cloak/internal/zzverif/vapi"
)

// VerifC18Connect: whatever record the admin API can create, its owner connecting (Panel.GetUser ->
// AuthenticateUser -> MakeValve) does not panic.
func VerifC18Connect() {
	vapi.SleepBlocks(true)
	now := int64(1700000000)
	m := usermanager.NewFakeManager(func() int64 { return now })
	rates := []int64{-1 << 63, -1, 0, 1, 1000, 1<<63 - 1}
	uid := []byte("AAAAAAAAAAAAAAAA")
	mask := vapi.Pick("mask", 8) // presence of UpRate, DownRate, credits+expiry
	u := usermanager.UserInfo{UID: uid}
	if mask&1 != 0 {
		u.UpRate = usermanager.JustInt64(rates[vapi.Pick("up", len(rates))])
	}
	if mask&2 != 0 {
		u.DownRate = usermanager.JustInt64(rates[vapi.Pick("down", len(rates))])
	}
	if mask&4 != 0 {
		u.UpCredit = usermanager.JustInt64(vapi.I64("upc"))
		u.DownCredit = usermanager.JustInt64(vapi.I64("downc"))
		u.ExpiryTime = usermanager.JustInt64(vapi.I64("exp"))
		u.SessionsCap = usermanager.JustInt32(vapi.I32("cap"))
	}
	err := m.WriteUserInfo(u)
	vapi.Assert(err == nil, "C18: write accepted")
	panel := MakeUserPanel(m)
	var user *ActiveUser
	panicked := vapi.Catch(func() { user, err = panel.GetUser(uid) })
	vapi.Assert(!panicked, "C18: no record the API can create crashes the server when its owner connects")
	if err == nil {
		vapi.Assert(user != nil, "C18: an authorised user gets an active record")
		vapi.Reach("connect-ok")
	} else {
		vapi.Reach("connect-refused")
	}
}
