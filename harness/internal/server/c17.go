package server

import (
	mux "github.com/cbeuw/Cloak/internal/multiplex"
	"github.com/cbeuw/Cloak/internal/zzverif/vapi"
)

// VerifC17Dead: pairs (thorough: triples) of bookkeeping operations in any overlap: none blocks for ever.
func VerifC17Dead() {
	vapi.SetPreemptBound(vapi.Param("preempt", 2))
	w := vPanel()
	w.addUser(vUIDs[0], 5, 1000, 1000, w.now+1000)
	w.addUser(vUIDs[1], 5, 1000, 1000, w.now+1000)
	// initial state: user 0 has sessions 1 and 2, user 1 has session 1; some usage is pending in the queue
	u0, s01, _, _ := w.admit(vUIDs[0], 1, "k01")
	_, _, _, _ = w.admit(vUIDs[0], 2, "k02")
	u1, _, _, _ := w.admit(vUIDs[1], 1, "k11")
	vapi.Assume(u0 != nil && u1 != nil && s01 != nil)
	u0.valve.AddRx(10)
	u1.valve.AddTx(20)
	w.panel.updateUsageQueue()
	u0.valve.AddRx(1)
	ops := []func(){
		func() { w.admit(vUIDs[0], 3, "kx") },           // admission of a new session
		func() { u0.CloseSession(1, "") },                // closing a non-last session
		func() { u1.CloseSession(1, "") },                // closing a user's last session (terminates the user)
		func() { w.panel.TerminateActiveUser(u0, "x") },  // termination
		func() { w.panel.updateUsageQueue() },            // usage collection
		func() { w.panel.commitUpdate() },                // usage commit (queue not empty)
		func() { w.panel.updateUsageQueue(); w.panel.commitUpdate() }, // a whole upload round
	}
	k := vapi.Param("ops", 2)
	done := make([]bool, k)
	var chosen []int
	for i := 0; i < k; i++ {
		lo := 0
		if i > 0 {
			lo = chosen[i-1] // unordered selections with repetition
		}
		chosen = append(chosen, lo+vapi.Pick("op", len(ops)-lo))
	}
	order := make([]int, k)
	for i := range order {
		order[i] = i
	}
	if vapi.Pick("rev", 2) == 1 {
		order[0], order[k-1] = order[k-1], order[0]
	}
	for _, i := range order {
		i := i
		f := ops[chosen[i]]
		go func() { f(); done[i] = true }()
	}
	vapi.Quiesce()
	for i := 0; i < k; i++ {
		vapi.Assert(done[i], "C17: bookkeeping operations running in any overlap all complete (no deadlock)")
	}
	vapi.Reach("dead-end")
}

// VerifC17Own: a new connection of a user arrives while that user's last session is being closed: at quiescence
// every live session is reachable from the panel's record of the user.
func VerifC17Own() {
	vapi.SetPreemptBound(vapi.Param("preempt", 1))
	w := vPanel()
	w.addUser(vUIDs[0], 5, 1000, 1000, w.now+1000)
	u0, _, _, _ := w.admit(vUIDs[0], 1, "k1")
	vapi.Assume(u0 != nil)
	var ns *mux.Session
	var nerr error
	d1, d2 := false, false
	closer := func() { u0.CloseSession(1, ""); d1 = true }
	admitter := func() { _, ns, _, nerr = w.admit(vUIDs[0], 2, "k2"); d2 = true }
	if vapi.Pick("first", 2) == 0 {
		go closer()
		go admitter()
	} else {
		go admitter()
		go closer()
	}
	vapi.Quiesce()
	vapi.Assert(d1 && d2, "C17: both operations complete")
	if nerr == nil && ns != nil && !ns.IsClosed() {
		vapi.AssertKnown(vIn(ns, w.reachable(vUIDs[0])), "C17-session-on-terminated-record", "C17: a live session is owned by the user's active record known to the server (so its usage is reported and it can be terminated)")
	}
	vapi.Reach("own-end")
}

// VerifC17TermRace: an upload round that orders a user terminated overlaps with that user's last session closing
// and the user reconnecting (a fresh active record): at quiescence the user ordered terminated has no live session
// left on a record the server has forgotten, and its usage was charged exactly once.
func VerifC17TermRace() {
	vapi.SetPreemptBound(vapi.Param("preempt", 2))
	w := vPanel()
	w.addUser(vUIDs[0], 5, 100, 100, w.now+1000)
	u0, s1, _, _ := w.admit(vUIDs[0], 1, "k1")
	vapi.Assume(u0 != nil && s1 != nil)
	u0.valve.AddRx(150) // more than the credit: the next upload orders the user terminated
	w.panel.updateUsageQueue()
	var ub *ActiveUser
	var ns *mux.Session
	var nerr error
	d1, d2 := false, false
	committer := func() { w.panel.commitUpdate(); d1 = true }
	reconnect := func() {
		u0.CloseSession(1, "")
		ub, ns, _, nerr = w.admit(vUIDs[0], 2, "k2")
		d2 = true
	}
	if vapi.Pick("first", 2) == 0 {
		go committer()
		go reconnect()
	} else {
		go reconnect()
		go committer()
	}
	vapi.Quiesce()
	vapi.Assert(d1 && d2, "C17: both operations complete")
	vapi.Assert(s1.IsClosed(), "C17: the closed session is closed")
	if nerr == nil && ns != nil && !ns.IsClosed() {
		if ub == u0 {
			vapi.AssertKnown(vIn(ns, w.reachable(vUIDs[0])), "C17-session-on-terminated-record", "C17: a live session is owned by the user's active record known to the server")
		} else {
			vapi.Assert(vIn(ns, w.reachable(vUIDs[0])), "C17: a fresh active record with a live session is never forgotten by the panel (its usage would go unreported and it could not be terminated)")
		}
	}
	// one more round flushes whatever the termination collected
	w.panel.updateUsageQueue()
	w.panel.commitUpdate()
	info, _ := w.mgr.GetUserInfo(vUIDs[0])
	vapi.Assert(*info.UpCredit == 100-150, "C16/C17: the usage is charged exactly once whatever the overlap")
	vapi.Reach("termrace-end")
}

// hookValve runs hook inside the first Nullify call: usage collection is the first step of a termination, so the
// hook executes in the gap between "the last session is gone" and "the record is forgotten".
type hookValve struct {
	mux.Valve
	hook func()
	done bool
}

func (v *hookValve) Nullify() (int64, int64) {
	if !v.done {
		v.done = true
		v.hook()
	}
	return v.Valve.Nullify()
}

// VerifC17Gap: a connection of the same user is admitted exactly between the closing of the user's last session and
// the record being forgotten (deterministically, no scheduling involved): the termination that follows also closes
// the session admitted in the gap, so no live session is left on a record the server no longer knows.
func VerifC17Gap() {
	w := vPanel()
	w.addUser(vUIDs[0], 5, 1000, 1000, w.now+1000)
	u0, s1, _, _ := w.admit(vUIDs[0], 1, "k1")
	vapi.Assume(u0 != nil && s1 != nil)
	var ub *ActiveUser
	var ns *mux.Session
	var nerr error
	hv := &hookValve{Valve: u0.valve}
	hv.hook = func() { ub, ns, _, nerr = w.admit(vUIDs[0], 2, "k2") }
	u0.valve = hv
	u0.CloseSession(1, "")
	vapi.Assert(hv.done, "C17: closing the last session terminates the user (usage collected)")
	vapi.Assert(s1.IsClosed(), "C17: the closed session is closed")
	if nerr == nil && ns != nil && !ns.IsClosed() {
		vapi.Assert(vIn(ns, w.reachable(vUIDs[0])), "C17: a session admitted while the user's last session was being closed is either closed by the termination or owned by a record the server knows")
	}
	_ = ub
	// the server stays usable for this user
	_, s3, _, err3 := w.admit(vUIDs[0], 3, "k3")
	vapi.Assert(err3 == nil && s3 != nil && vIn(s3, w.reachable(vUIDs[0])), "C17: the user can connect again afterwards and is tracked")
	vapi.Reach("gap-end")
}
