package server

import (
	mux "github.com/cbeuw/Cloak/internal/multiplex"
	"github.com/cbeuw/Cloak/internal/server/usermanager"
	"github.com/cbeuw/Cloak/internal/zzverif/vapi"
)

var vUIDs = [][]byte{[]byte("AAAAAAAAAAAAAAAA"), []byte("BBBBBBBBBBBBBBBB")}

type vWorld struct {
	mgr   usermanager.UserManager
	panel *userPanel
	now   int64
}

// vPanel: real userPanel over the real localManager on the bolt model; the periodic upload goroutine is parked.
func vPanel() *vWorld {
	vapi.SleepBlocks(true)
	vapi.RandZero(true)
	w := &vWorld{now: 1700000000}
	w.mgr = usermanager.NewFakeManager(func() int64 { return w.now })
	w.panel = MakeUserPanel(w.mgr)
	return w
}

func (w *vWorld) addUser(uid []byte, cap int32, upCredit, downCredit, expiry int64) {
	w.mgr.WriteUserInfo(usermanager.UserInfo{UID: uid, SessionsCap: usermanager.JustInt32(cap), UpRate: usermanager.JustInt64(1000000000), DownRate: usermanager.JustInt64(1000000000),
		UpCredit: usermanager.JustInt64(upCredit), DownCredit: usermanager.JustInt64(downCredit), ExpiryTime: usermanager.JustInt64(expiry)})
}

func vSeshConfig(name string) mux.SessionConfig {
	var key [32]byte
	copy(key[:], vapi.Bytes(name, 32))
	o, _ := mux.MakeObfuscator(0, key)
	return mux.SessionConfig{Obfuscator: o, MsgOnWireSizeLimit: appDataMaxLength}
}

// admit is the admission tail of dispatchConnection for an authenticated (UID, session id).
func (w *vWorld) admit(uid []byte, sid uint32, keyName string) (*ActiveUser, *mux.Session, bool, error) {
	user, err := w.panel.GetUser(uid)
	if err != nil {
		return nil, nil, false, err
	}
	sesh, existing, err := user.GetSession(sid, vSeshConfig(keyName))
	if err != nil {
		user.CloseSession(sid, "")
		return user, nil, false, err
	}
	return user, sesh, existing, nil
}

// liveSessions: sessions of the user that the panel can reach through its single active record.
func (w *vWorld) reachable(uid []byte) []*mux.Session {
	var arr [16]byte
	copy(arr[:], uid)
	w.panel.activeUsersM.RLock()
	u := w.panel.activeUsers[arr]
	w.panel.activeUsersM.RUnlock()
	if u == nil {
		return nil
	}
	var out []*mux.Session
	u.sessionsM.RLock()
	for _, s := range u.sessions {
		out = append(out, s)
	}
	u.sessionsM.RUnlock()
	return out
}

func vIn(s *mux.Session, list []*mux.Session) bool {
	for _, x := range list {
		if x == s {
			return true
		}
	}
	return false
}
