package server

import (
	"errors"
	"net"
	"time"

	"github.com/cbeuw/Cloak/internal/server/usermanager"
	"github.com/cbeuw/Cloak/internal/zzverif/vapi"
	"github.com/cbeuw/Cloak/internal/zzverif/vconn"
)

type vAddr struct{ s string }

func (a vAddr) Network() string { return "tcp" }
func (a vAddr) String() string  { return a.s }

type vDialer struct {
	conn   net.Conn
	dialed int
	fail   bool
}

func (d *vDialer) Dial(network, address string) (net.Conn, error) {
	d.dialed++
	if d.fail {
		return nil, errors.New("dial failed")
	}
	return d.conn, nil
}

// VerifC09Rfp: readFirstPacket over an arbitrary peer stream under every segmentation.
func VerifC09Rfp() {
	vapi.ConcLimit(80)
	n := vapi.Param("n", 8)
	sc, pc := vconn.Pipe(false)
	sc.Segment = true
	sc.MaxChunks = vapi.Param("chunks", 2)
	kind := vapi.Pick("kind", 4)
	var stream []byte
	switch kind {
	case 3: // an over-long header line: the reader must stop at its 3000-byte buffer
		stream = make([]byte, firstPacketSize+100)
		for i := range stream {
			stream[i] = 'a'
		}
		stream[0] = 0x47
		sc.Segment = false
	case 0: // arbitrary bytes (any first byte)
		k := vapi.Pick("len", n+1)
		stream = vapi.Bytes("s", k)
	case 1: // a TLS record header with any declared length, then up to n-5 bytes
		k := vapi.Pick("len", n-4)
		stream = append([]byte{0x16}, vapi.Bytes("s", 4+k)...)
	case 2: // an HTTP-like request: 'G' then bytes among which CR LF may occur anywhere
		k := vapi.Pick("len", n)
		stream = append([]byte{0x47}, vapi.Bytes("s", k)...)
	}
	sc.Feed(stream)
	sc.FeedEOF()
	buf := make([]byte, firstPacketSize)
	var got int
	var redir bool
	var err error
	panicked := vapi.Catch(func() { got, _, redir, err = readFirstPacket(sc, buf, 15*time.Second) })
	vapi.Assert(!panicked, "C09: no peer input crashes the first-packet reader")
	vapi.Assert(got == sc.ReadBytes, "C09: the count returned equals the bytes consumed from the peer")
	vapi.Assert(got <= len(stream), "C09: never more than the peer sent")
	vapi.Assert(vapi.BytesEq(buf[:got], stream[:got]), "C09: the buffer holds exactly the consumed prefix, byte for byte")
	vapi.Assert(len(pc.Writes) == 0 && len(sc.Writes) == 0, "C09: nothing is written to the peer while reading the first packet")
	if !sc.Closed {
		vapi.Assert(sc.ReadDeadline.IsZero(), "C09: no read deadline is left armed on a connection that lives on (relayed or authenticated)")
	}
	if err != nil && redir {
		vapi.Assert(!sc.Closed, "C09: a connection to be redirected is left open")
		vapi.Reach("rfp-redirect")
	}
	if err == nil {
		vapi.Reach("rfp-ok")
	}
}

// VerifC09RfpLen: declared TLS lengths over the whole 16-bit range against the 3000-byte buffer.
func VerifC09RfpLen() {
	c := &vconn.LenConn{MaxShort: 1, EOF: true}
	c.Avail = vapi.Range("avail", 1, 70000)
	buf := vapi.AbstractBytes("buf", firstPacketSize)
	// first byte: a TLS record (all declared lengths follow) or an unrecognised protocol byte; the HTTP line
	// reader is covered with contents in VerifC09Rfp
	if vapi.Pick("first", 2) == 0 {
		c.First = []byte{0x16}
	} else {
		b := vapi.U8("first")
		vapi.Assume(b != 0x16)
		vapi.Assume(b != 0x47)
		c.First = []byte{b}
	}
	var got int
	var err error
	var redir bool
	panicked := vapi.Catch(func() { got, _, redir, err = readFirstPacket(c, buf, 15*time.Second) })
	vapi.Assert(!panicked, "C09: readFirstPacket never panics")
	vapi.Assert(got == c.Consumed, "C09: count returned equals bytes consumed")
	vapi.Assert(got <= firstPacketSize, "C09: never more than the buffer")
	_ = err
	_ = redir
	vapi.Reach("rfplen-end")
}

type c09World struct {
	sta      *State
	pc, sc   *vconn.Conn // peer end, server end
	wc, tc   *vconn.Conn // server-side web conn, target end
	dialer   *vDialer
	staticPv *[32]byte
	pub      [32]byte
}

func c09Setup() *c09World {
	vapi.SleepBlocks(true)
	vapi.Adversary(true)
	vapi.EagerOffsets(true)
	vapi.ConcLimit(300)
	w := &c09World{}
	w.staticPv, w.pub = vServerKeys()
	w.sta = vState(w.staticPv)
	w.sc, w.pc = vconn.Pipe(false)
	w.wc, w.tc = vconn.Pipe(false)
	w.dialer = &vDialer{conn: w.wc}
	w.sta.RedirDialer = w.dialer
	w.sta.RedirHost = vAddr{"203.0.113.7"}
	w.sta.RedirPort = "443"
	w.sta.ProxyBook = map[string]net.Addr{"shadowsocks": vAddr{"127.0.0.1:8388"}}
	w.sta.ProxyDialer = &vDialer{fail: true}
	w.sta.Panel = MakeUserPanel(&usermanager.Voidmanager{})
	return w
}

// relay runs dispatchConnection on peer stream s, lets the target answer r, and checks the transparent relay.
func (w *c09World) relay(s, r []byte, what string) {
	// the peer sends s and keeps the connection open waiting for an answer (no half-close: Cloak's relay, like
	// the Go copy loop it is forked from, tears both directions down on the first EOF)
	w.sc.Feed(s)
	go dispatchConnection(w.sc, w.sta)
	vapi.Quiesce()
	vapi.Assert(w.dialer.dialed == 1, "C09: "+what+": the redirect target is dialled exactly once")
	// the target answers r, then closes
	w.tc.Write(r)
	vapi.Quiesce()
	got := make([]byte, len(s)+8)
	n := 0
	for w.tc.Pending() > 0 {
		k, _ := w.tc.Read(got[n:])
		n += k
	}
	vapi.Assert(n == len(s), "C09: "+what+": the target receives all of the peer's stream, nothing more")
	vapi.Assert(vapi.BytesEq(got[:n], s), "C09: "+what+": ... byte for byte")
	back := make([]byte, len(r)+8)
	m := 0
	for w.pc.Pending() > 0 {
		k, _ := w.pc.Read(back[m:])
		m += k
	}
	vapi.Assert(m == len(r) && vapi.BytesEq(back[:m], r), "C09: "+what+": the peer receives exactly the target's reply and not a byte from the server itself")
	w.tc.Close()
	vapi.Quiesce()
	vapi.Assert(w.sc.Closed, "C09: "+what+": when the target closes, the peer's connection is closed too (nothing left wedged)")
}

// VerifC09Relay: every rejection branch of dispatchConnection behaves as a transparent relay.
func VerifC09Relay() {
	vapi.SetPreemptBound(vapi.Param("preempt", 0))
	branch := vapi.Pick("branch", 7)
	vConcrete = false
	w := c09Setup()
	vSetClock("now")
	ts := vNowSec
	r := vapi.Bytes("reply", 1+vapi.Pick("rlen", 2))
	extra := vapi.Bytes("extra", 2)
	uid := vapi.Bytes("uid", 16)
	switch branch {
	case 0: // unrecognised first byte
		s := vapi.Bytes("s", 3)
		vapi.Assume(s[0] != 0x16)
		vapi.Assume(s[0] != 0x47)
		w.relay(s, r, "unrecognised protocol")
		vapi.Reach("relay-unrecognised")
	case 1: // oversize record
		s := append([]byte{0x16, 0x03, 0x01, 0xff, 0xf0}, extra...)
		w.relay(s, r, "oversize record")
		vapi.Reach("relay-oversize")
	case 2: // a structurally valid hello that is not Cloak's (arbitrary random / session id / key share)
		h := vHello(vapi.Bytes("rnd", 32), vapi.Bytes("sidbytes", 32), vapi.Bytes("ks", 32))
		w.relay(append(h, extra...), r, "foreign ClientHello")
		vapi.Reach("relay-foreign")
	case 3: // replayed Cloak hello
		c := vNewClient(w.pub, vPlaintext(uid, []byte("shadowsocks"), 1, ts, 5, false))
		h := c.hello()
		_, _, err := AuthFirstPacket(append([]byte{}, h...), TLS{}, w.sta)
		vapi.Assume(err == nil)
		w.relay(append(h, extra...), r, "replayed hello")
		vapi.Reach("relay-replay")
	case 4: // valid hello, proxy method not served
		c := vNewClient(w.pub, vPlaintext(uid, []byte("openvpn"), 1, ts, 5, false))
		w.relay(append(c.hello(), extra...), r, "unknown proxy method")
		vapi.Reach("relay-badmethod")
	case 5: // valid hello, UID not authorised (no database, not bypassed)
		c := vNewClient(w.pub, vPlaintext(uid, []byte("shadowsocks"), 1, ts, 5, false))
		w.relay(append(c.hello(), extra...), r, "unauthorised UID")
		vapi.Reach("relay-baduid")
	case 6: // HTTP request (parser stubbed: unparseable / without valid hidden field)
		s := append([]byte("GET / HTTP/1.1\r\n"), vapi.Bytes("hdr", 2)...)
		s = append(s, []byte("\r\n\r\n")...)
		w.relay(s, r, "HTTP request")
		vapi.Reach("relay-http")
	}
}

// VerifC07Gate: who gets a handshake reply, who reaches the admin API, who is relayed.
func VerifC07Gate() {
	vConcrete = false
	w := c09Setup()
	vSetClock("now")
	ts := vNowSec
	admin := vapi.Bytes("admin", 16)
	bypass := vapi.Bytes("bypass", 16)
	other := vapi.Bytes("other", 16)
	differ := func(a, b []byte) bool {
		d := false
		for i := range a {
			d = vapi.Or(d, a[i] != b[i])
		}
		return d
	}
	vapi.Assume(differ(admin, bypass))
	vapi.Assume(differ(admin, other))
	vapi.Assume(differ(bypass, other))
	w.sta.AdminUID = admin
	var k [16]byte
	copy(k[:], bypass)
	w.sta.BypassUID[k] = struct{}{}
	copy(k[:], admin)
	w.sta.BypassUID[k] = struct{}{}
	who := vapi.Pick("who", 3)
	uid := [][]byte{admin, bypass, other}[who]
	sidZero := vapi.Pick("sid0", 2) == 0
	sid := vapi.U32("sid")
	if sidZero {
		sid = 0
	} else {
		vapi.Assume(sid != 0)
	}
	served := vapi.Pick("served", 2) == 0
	method := []byte("shadowsocks")
	if !served {
		method = []byte("openvpn")
	}
	c := vNewClient(w.pub, vPlaintext(uid, method, 1, ts, sid, false))
	w.sc.Feed(c.hello())
	go dispatchConnection(w.sc, w.sta)
	vapi.Quiesce()
	replied := w.pc.Pending() > 0
	adminReached := vapi.HTTPServeCalls() > 0
	relayed := w.dialer.dialed > 0
	wantAdmin := who == 0 && sidZero
	wantSession := !wantAdmin && served && (who == 0 || who == 1)
	vapi.Assert(adminReached == wantAdmin, "C07: the user-management API is reached only with the admin UID and session id 0")
	vapi.Assert(replied == (wantAdmin || wantSession), "C07: a handshake reply is written only for an authorised UID and a served proxy method")
	vapi.Assert(relayed == !(wantAdmin || wantSession), "C07: every other first packet is handed to the redirect target")
	vapi.Reach("gate-end")
}

// VerifC09Hidden: the decoded "hidden" header of a WebSocket first request is attacker-controlled in length and
// content: for every length 0..130 (arbitrary bytes) unmarshalHidden never panics; only exactly 96 bytes are accepted
// and then the fragments are the input fields; anything else is an error (the caller then relays to the target).
func VerifC09Hidden() {
	vConcrete = false
	priv, _ := vServerKeys()
	n := vapi.Pick("len", vapi.Param("maxlen", 130)+1)
	hidden := vapi.Bytes("hidden", n)
	var fr authFragments
	var err error
	panicked := vapi.Catch(func() { fr, err = WebSocket{}.unmarshalHidden(hidden, priv) })
	vapi.Assert(!panicked, "C09: no hidden-header length or content crashes the server")
	if n != 96 {
		vapi.Assert(err != nil, "C09: a hidden header of the wrong size is rejected (the connection is then relayed)")
	} else if err == nil {
		vapi.Assert(vapi.BytesEq(fr.randPubKey[:], hidden[:32]) && vapi.BytesEq(fr.ciphertextWithTag[:], hidden[32:]), "C09: accepted fragments are the fields sent")
	}
	vapi.Reach("hidden-end")
}
