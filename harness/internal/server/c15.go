package server

import (
	mux "github.com/cbeuw/Cloak/internal/multiplex"
	"github.com/cbeuw/Cloak/internal/zzverif/vapi"
)

// VerifC15Join: simultaneous admissions for (UID, session id) pairs: same pair => one session and one key;
// different pairs => different sessions; never more live sessions than the cap.
func VerifC15Join() {
	vapi.SetPreemptBound(vapi.Param("preempt", 1))
	w := vPanel()
	capv := int32(1 + vapi.Pick("cap", 2)) // 1 or 2
	w.addUser(vUIDs[0], capv, 1000, 1000, w.now+1000)
	w.addUser(vUIDs[1], capv, 1000, 1000, w.now+1000)
	n := vapi.Param("threads", 2)
	type req struct {
		u    int
		sid  uint32
		user *ActiveUser
		sesh *mux.Session
		ex   bool
		err  error
		done bool
	}
	rs := make([]*req, n)
	keys := []string{"key0", "key1", "key2"}
	for i := 0; i < n; i++ {
		rs[i] = &req{u: vapi.Pick("uid", 2), sid: uint32(1 + vapi.Pick("sid", 2))}
	}
	// threads start in either order
	order := []int{0, 1, 2}[:n]
	if vapi.Pick("rev", 2) == 1 {
		order[0], order[n-1] = order[n-1], order[0]
	}
	for _, i := range order {
		r := rs[i]
		k := keys[i]
		go func() {
			r.user, r.sesh, r.ex, r.err = w.admit(vUIDs[r.u], r.sid, k)
			r.done = true
		}()
	}
	vapi.Quiesce()
	for i := 0; i < n; i++ {
		vapi.Assert(rs[i].done, "C15/C17: admission returns")
	}
	for i := 0; i < n; i++ {
		for j := i + 1; j < n; j++ {
			a, b := rs[i], rs[j]
			if a.err != nil || b.err != nil {
				continue
			}
			if a.u == b.u && a.sid == b.sid {
				vapi.Assert(a.sesh == b.sesh, "C15: connections presenting the same UID and session id are attached to one session")
				vapi.Assert(a.sesh.GetSessionKey() == b.sesh.GetSessionKey(), "C15: ... and are given the same session key")
				vapi.Assert(!(!a.ex && !b.ex), "C15: at most one of them created the session")
				vapi.Assert(a.user == b.user, "C17: one active record per user")
			} else {
				vapi.Assert(a.sesh != b.sesh, "C15: different session ids or UIDs never share a session")
			}
			if a.u == b.u {
				vapi.Assert(a.user == b.user, "C17: one active record per user")
			}
		}
	}
	// per (UID, session id): exactly one successful admission created the session, the others joined it
	for u := 0; u < 2; u++ {
		for sid := uint32(1); sid <= 2; sid++ {
			created, ok := 0, 0
			for i := 0; i < n; i++ {
				if rs[i].err == nil && rs[i].u == u && rs[i].sid == sid {
					ok++
					if !rs[i].ex {
						created++
					}
				}
			}
			vapi.Assert(ok == 0 || created == 1, "C15: exactly one of the admissions for a (UID, session id) pair created the session")
		}
	}
	for u := 0; u < 2; u++ {
		live := w.reachable(vUIDs[u])
		vapi.Assert(len(live) <= int(capv), "C15: a limited user never has more concurrent sessions than its cap")
		for i := 0; i < n; i++ {
			if rs[i].err == nil && rs[i].u == u && !rs[i].sesh.IsClosed() {
				vapi.Assert(vIn(rs[i].sesh, live), "C17: every live session is owned by the user's single active record known to the panel")
				vapi.Assert(rs[i].sesh.Valve == rs[i].user.valve, "C19: every session of a user shares the user's one valve")
			}
		}
	}
	vapi.Reach("join-end")
}

// VerifC15Limits: exhausted credit or passed expiry => no session; cap for sequential arrivals; all values symbolic.
func VerifC15Limits() {
	w := vPanel()
	capv := vapi.I32("cap")
	up := vapi.I64("up")
	down := vapi.I64("down")
	exp := vapi.I64("exp")
	vapi.Assume(capv >= 0)
	vapi.Assume(capv <= 2)
	w.addUser(vUIDs[0], capv, up, down, exp)
	ok := vapi.And(vapi.And(up > 0, down > 0), exp >= w.now)
	admitted := 0
	for i := 0; i < 3; i++ {
		_, sesh, _, err := w.admit(vUIDs[0], uint32(10+i), "k")
		if err == nil && sesh != nil {
			admitted++
		}
		vapi.Assert(vapi.Implies(err == nil, ok), "C15: a user whose credit is exhausted or whose expiry has passed cannot start a session")
	}
	vapi.Assert(vapi.Implies(ok, admitted == int(capv)), "C15: exactly cap sessions are admitted for an entitled user")
	vapi.Assert(admitted <= int(capv), "C15: never more sessions than the cap")
	vapi.Reach("limits-end")
}

// VerifC15LimitsActive: the limits are enforced for every new session, also for a user who is already active (whose
// record is cached by the panel): after the stored credit / expiry / cap changed to arbitrary values (admin write or
// usage upload), a further session is admitted only if the user is still entitled.
func VerifC15LimitsActive() {
	w := vPanel()
	w.addUser(vUIDs[0], 3, 1000, 1000, w.now+1000)
	_, s1, _, err := w.admit(vUIDs[0], 10, "k")
	vapi.Assert(err == nil && s1 != nil, "C15: entitled user admitted")
	capv := vapi.I32("cap")
	up := vapi.I64("up")
	down := vapi.I64("down")
	exp := vapi.I64("exp")
	vapi.Assume(capv >= 0)
	vapi.Assume(capv <= 3)
	w.addUser(vUIDs[0], capv, up, down, exp)
	ok := vapi.And(vapi.And(up > 0, down > 0), exp >= w.now)
	u, s2, existing, err := w.admit(vUIDs[0], 11, "k")
	vapi.Assert(vapi.Implies(err == nil, ok), "C15: an active user whose credit is exhausted or whose expiry has passed cannot start a further session")
	vapi.Assert(vapi.Implies(err == nil, capv >= 2), "C15: never more sessions than the cap (active user)")
	vapi.Assert(vapi.Implies(vapi.And(ok, capv >= 2), err == nil && s2 != nil && !existing), "C15: an entitled active user below its cap is admitted")
	if u != nil && err != nil {
		vapi.Assert(u.NumSession() == 1, "C15: a refused admission leaves the live session count unchanged")
	}
	// joining the existing session is not a new session: always allowed
	_, s1b, ex, err := w.admit(vUIDs[0], 10, "k")
	vapi.Assert(err == nil && s1b == s1 && ex, "C15: a connection for a live session joins it")
	vapi.Reach("limits-active-end")
}
