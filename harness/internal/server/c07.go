package server

import (
	"crypto"

	"github.com/cbeuw/Cloak/internal/common"

	"github.com/cbeuw/Cloak/internal/zzverif/vapi"
	"golang.org/x/crypto/curve25519"
)

// VerifC07Window: the timestamp window, for every 64-bit timestamp and every server instant at ns resolution.
func VerifC07Window() {
	staticPv, serverPub := vServerKeys()
	ts := vapi.I64("ts")
	// the proxy-method bytes are concrete here (their trimming forks per byte and is irrelevant to the window;
	// VerifC07Fields covers them)
	pt := vPlaintext(vapi.Bytes("uid", 16), []byte("shadowsocks"), vapi.U8("enc"), ts, vapi.U32("sid"), vapi.Bool("unordered"))
	c := vNewClient(serverPub, pt)
	S := vSetClock("now")
	N := vNowNsec
	var frag authFragments
	frag.randPubKey = c.ephPub
	frag.ciphertextWithTag = c.ct
	_ = staticPv
	frag.sharedSecret = c.secret
	_, err := decryptClientInfo(frag, vNow().UTC())
	inWindow := vapi.And(ts > S-180, vapi.Or(ts < S+180, vapi.And(ts == S+180, N > 0)))
	vapi.Assert(vapi.Implies(err == nil, inWindow), "C07: a timestamp outside the strict window is never accepted")
	vapi.Assert(vapi.Implies(inWindow, err == nil), "C07: a timestamp strictly inside the window is accepted")
	vapi.Reach("window-end")
}

// VerifC07Fields: the server recovers exactly the fields sealed by the client (every value of every field).
func VerifC07Fields() {
	_, serverPub := vServerKeys()
	staticPv := new([32]byte)
	copy(staticPv[:], vapi.Bytes("staticPv", 32)) // same draw names: same symbolic key
	// the clock is concrete here: the window arithmetic is VerifC07Window's subject
	vNowSec, vNowNsec = 1700000000, 5
	S := vNowSec
	uid := vapi.Bytes("uid", 16)
	mlen := 1 + vapi.Pick("mlen", 12)
	method := vapi.Bytes("method", mlen)
	for i := range method {
		vapi.Assume(method[i] != 0)
	}
	enc := vapi.U8("enc")
	sid := vapi.U32("sid")
	un := vapi.Bool("unordered")
	ts := S - 100
	c := vNewClient(serverPub, vPlaintext(uid, method, enc, ts, sid, un))
	var frag authFragments
	frag.randPubKey = c.ephPub
	frag.ciphertextWithTag = c.ct
	frag.sharedSecret = c.secret
	info, err := decryptClientInfo(frag, vNow().UTC())
	vapi.Assert(err == nil, "C07: honest in-window payload accepted")
	vapi.Assert(vapi.BytesEq(info.UID, uid), "C06/C07: UID recovered")
	vapi.Assert(vapi.StrEq(info.ProxyMethod, string(method)), "C06/C07: proxy method recovered")
	vapi.Assert(info.EncryptionMethod == enc, "C06/C07: encryption method recovered")
	vapi.Assert(info.SessionId == sid, "C06/C07: session id recovered")
	vapi.Assert(info.Unordered == un, "C06/C07: unordered flag recovered")
	vapi.Reach("fields-end")
}

// vWSHidden: the WebSocket transport from the decoded hidden header on (the HTTP parser and base64 decoding in front
// of it are outside the encoding).
type vWSHidden struct{}

func (vWSHidden) processFirstPacket(hidden []byte, privateKey crypto.PrivateKey) (authFragments, Responder, error) {
	f, err := WebSocket{}.unmarshalHidden(hidden, privateKey)
	return f, nil, err
}

// c07Present presents (ephemeral public key, sealed payload) as a first packet over the TLS or the WebSocket transport.
func c07Present(sta *State, ws bool, eph []byte, ct []byte) error {
	if ws {
		_, _, err := AuthFirstPacket(append(append([]byte{}, eph...), ct...), vWSHidden{}, sta)
		return err
	}
	_, _, err := AuthFirstPacket(vHello(eph, ct[:32], ct[32:]), TLS{}, sta)
	return err
}

// VerifC07Forge: a payload sealed under any key other than the X25519 secret of (server static key, presented
// ephemeral key) is never accepted - whatever ephemeral value is presented, including points for which the key
// agreement degenerates - although everything inside it (UID, method, timestamp) is acceptable.
func VerifC07Forge() {
	vapi.Adversary(true)
	ws := vapi.Pick("transport", 2) == 1
	staticPv, _ := vServerKeys()
	sta := vState(staticPv)
	vSetClock("now")
	eph := vapi.Bytes("eph", 32)
	K := vapi.Bytes("K", 32)
	pt := vPlaintext(vapi.Bytes("uid", 16), []byte("shadowsocks"), 1, vNowSec, vapi.U32("sid"), false)
	ct := vSealGCM(eph[:12], K, pt)
	s, derr := curve25519.X25519(staticPv[:], eph)
	vapi.Assume(vapi.Or(derr != nil, !vapi.BytesEq(s, K))) // the forger does not know the shared secret
	err := c07Present(sta, ws, eph, ct)
	vapi.Assert(err != nil, "C07: a payload that was not encrypted to the server's static public key is never accepted")
	vapi.Reach("forge-end")
}

// VerifC07Tamper: an honest payload with any one byte of the ephemeral key or of the sealed block altered is not
// accepted (TLS and WebSocket transports).
func VerifC07Tamper() {
	vapi.Adversary(true)
	ws := vapi.Pick("transport", 2) == 1
	staticPv, serverPub := vServerKeys()
	sta := vState(staticPv)
	vSetClock("now")
	c := vNewClient(serverPub, vPlaintext(vapi.Bytes("uid", 16), []byte("shadowsocks"), 1, vNowSec, vapi.U32("sid"), false))
	eph := append([]byte{}, c.ephPub[:]...)
	ct := append([]byte{}, c.ct[:]...)
	delta := vapi.U8("delta")
	vapi.Assume(delta != 0)
	epos := []int{0, 11, 12, 30, 31}
	cpos := []int{0, 15, 16, 31, 32, 47, 48, 63}
	if vapi.Param("allpos", 0) == 1 { // thorough: every byte position of the key and of the sealed block
		epos, cpos = nil, nil
		for i := 0; i < 32; i++ {
			epos = append(epos, i)
		}
		for i := 0; i < 64; i++ {
			cpos = append(cpos, i)
		}
	}
	k := vapi.Pick("pos", len(epos)+len(cpos)+1)
	switch {
	case k < len(epos):
		if epos[k] == 31 {
			vapi.Assume(delta != 0x80) // RFC 7748: the top bit of the u-coordinate is ignored (same key, same payload: C08's subject)
		}
		eph[epos[k]] ^= delta
	case k < len(epos)+len(cpos):
		ct[cpos[k-len(epos)]] ^= delta
	default:
		// unmodified: accepted (reachability of the accepting path)
		vapi.Assert(c07Present(sta, ws, eph, ct) == nil, "C07: the unmodified honest payload is accepted")
		vapi.Reach("tamper-accept")
		return
	}
	vapi.Assert(c07Present(sta, ws, eph, ct) != nil, "C07: a modified authentication payload is never accepted")
	vapi.Reach("tamper-end")
}

// VerifC07Init: the set of UIDs the server authorises without a database (bypass list + admin) is exactly what the
// configuration names: for every configuration shape (admin UID present or not, 0..2 bypass UIDs, arbitrary bytes)
// and every probe UID, IsBypass(probe) holds iff the probe is one of the configured UIDs.
func VerifC07Init() {
	vapi.SleepBlocks(true)
	raw := RawConfig{RedirAddr: "203.0.113.7", PrivateKey: vapi.Bytes("pv", 32), ProxyBook: map[string][]string{}}
	hasAdmin := vapi.Pick("admin", 2) == 1
	var admin []byte
	if hasAdmin {
		admin = vapi.Bytes("adminuid", 16)
		raw.AdminUID = admin
	}
	nb := vapi.Pick("nbypass", 3)
	names := []string{"b0", "b1"}
	var bypass [][]byte
	for i := 0; i < nb; i++ {
		b := vapi.Bytes(names[i], 16)
		bypass = append(bypass, b)
		raw.BypassUID = append(raw.BypassUID, b)
	}
	sta, err := InitState(raw, common.WorldState{Rand: vTape{}, Now: vNow})
	vapi.Assert(err == nil && sta != nil, "C07: a complete server configuration is accepted")
	probe := vapi.Bytes("probe", 16)
	want := false
	if hasAdmin {
		want = vapi.Or(want, vapi.BytesEq(probe, admin))
	}
	for _, b := range bypass {
		want = vapi.Or(want, vapi.BytesEq(probe, b))
	}
	got := sta.IsBypass(probe)
	vapi.Assert(got == want, "C07: a UID is authorised without the database iff the configuration names it (bypass list or admin UID)")
	vapi.Assert(len(sta.BypassUID) <= nb+1, "C07: nothing but the configured UIDs is on the bypass list")
	if hasAdmin {
		vapi.Assert(vapi.BytesEq(sta.AdminUID, admin), "C07: admin UID taken from the configuration")
	} else {
		vapi.Assert(len(sta.AdminUID) == 0, "C07: no admin UID unless configured")
	}
	vapi.Reach("init-end")
}
