package server

import (
	"github.com/cbeuw/Cloak/internal/zzverif/vapi"
)

// VerifC07Window: the timestamp window, for every 64-bit timestamp and every server instant at ns resolution.
func VerifC07Window() {
	staticPv, serverPub := vServerKeys()
	ts := vapi.I64("ts")
	// the proxy-method bytes are concrete here (their trimming forks per byte and is irrelevant to the window;
	// VerifC07Fields covers them)
	pt := vPlaintext(vapi.Bytes("uid", 16), []byte("shadowsocks"), vapi.U8("enc"), ts, vapi.U32("sid"), vapi.Bool("unordered"))
	c := vNewClient(serverPub, pt)
	S := vSetClock("now")
	N := vNowNsec
	var frag authFragments
	frag.randPubKey = c.ephPub
	frag.ciphertextWithTag = c.ct
	_ = staticPv
	frag.sharedSecret = c.secret
	_, err := decryptClientInfo(frag, vNow().UTC())
	inWindow := vapi.And(ts > S-180, vapi.Or(ts < S+180, vapi.And(ts == S+180, N > 0)))
	vapi.Assert(vapi.Implies(err == nil, inWindow), "C07: a timestamp outside the strict window is never accepted")
	vapi.Assert(vapi.Implies(inWindow, err == nil), "C07: a timestamp strictly inside the window is accepted")
	vapi.Reach("window-end")
}

// VerifC07Fields: the server recovers exactly the fields sealed by the client (every value of every field).
func VerifC07Fields() {
	_, serverPub := vServerKeys()
	staticPv := new([32]byte)
	copy(staticPv[:], vapi.Bytes("staticPv", 32)) // same draw names: same symbolic key
	// the clock is concrete here: the window arithmetic is VerifC07Window's subject
	vNowSec, vNowNsec = 1700000000, 5
	S := vNowSec
	uid := vapi.Bytes("uid", 16)
	mlen := 1 + vapi.Pick("mlen", 12)
	method := vapi.Bytes("method", mlen)
	for i := range method {
		vapi.Assume(method[i] != 0)
	}
	enc := vapi.U8("enc")
	sid := vapi.U32("sid")
	un := vapi.Bool("unordered")
	ts := S - 100
	c := vNewClient(serverPub, vPlaintext(uid, method, enc, ts, sid, un))
	var frag authFragments
	frag.randPubKey = c.ephPub
	frag.ciphertextWithTag = c.ct
	frag.sharedSecret = c.secret
	info, err := decryptClientInfo(frag, vNow().UTC())
	vapi.Assert(err == nil, "C07: honest in-window payload accepted")
	vapi.Assert(vapi.BytesEq(info.UID, uid), "C06/C07: UID recovered")
	vapi.Assert(vapi.StrEq(info.ProxyMethod, string(method)), "C06/C07: proxy method recovered")
	vapi.Assert(info.EncryptionMethod == enc, "C06/C07: encryption method recovered")
	vapi.Assert(info.SessionId == sid, "C06/C07: session id recovered")
	vapi.Assert(info.Unordered == un, "C06/C07: unordered flag recovered")
	vapi.Reach("fields-end")
}
