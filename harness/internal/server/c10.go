package server

import (
	"github.com/cbeuw/Cloak/internal/common"
	"github.com/cbeuw/Cloak/internal/zzverif/vapi"
	"github.com/cbeuw/Cloak/internal/zzverif/vconn"
)

// refRecord is an independent TLS record-layer parser: returns (type, version, body, rest, ok).
func refRecord(b []byte) (typ byte, ver uint16, body, rest []byte, ok bool) {
	if len(b) < 5 {
		return
	}
	typ = b[0]
	ver = uint16(b[1])<<8 | uint16(b[2])
	n := int(b[3])<<8 | int(b[4])
	if len(b) < 5+n {
		return
	}
	return typ, ver, b[5 : 5+n], b[5+n:], true
}

// c10CheckReply parses the server's first flight with the reference parser and checks it field by field.
func c10CheckReply(reply, sessionID []byte, certLen int) {
	typ, ver, sh, rest, ok := refRecord(reply)
	vapi.Assert(ok && typ == 22 && ver == 0x0303, "C10: first record is a handshake record, version 3.3")
	vapi.Assert(len(sh) == 122, "C10: ServerHello record body is 4+118 bytes")
	vapi.Assert(sh[0] == 2 && sh[1] == 0 && sh[2] == 0 && sh[3] == 118, "C10: ServerHello handshake header with consistent length")
	vapi.Assert(sh[4] == 3 && sh[5] == 3, "C10: legacy version 3.3")
	vapi.Assert(sh[38] == 32, "C10: session id length 32")
	vapi.Assert(vapi.BytesEq(sh[39:71], sessionID), "C10: ServerHello echoes the client's session id")
	vapi.Assert(sh[71] == 0x13 && sh[72] == 0x02, "C10: cipher suite TLS_AES_256_GCM_SHA384")
	vapi.Assert(sh[73] == 0, "C10: null compression")
	vapi.Assert(sh[74] == 0 && sh[75] == 46, "C10: extensions length 46")
	ext := sh[76:]
	vapi.Assert(len(ext) == 46, "C10: extensions fill the rest of the message")
	vapi.Assert(ext[0] == 0 && ext[1] == 0x33 && ext[2] == 0 && ext[3] == 36 && ext[4] == 0 && ext[5] == 0x1d && ext[6] == 0 && ext[7] == 32, "C10: key_share extension with a 32-byte x25519 share")
	vapi.Assert(ext[40] == 0 && ext[41] == 0x2b && ext[42] == 0 && ext[43] == 2 && ext[44] == 3 && ext[45] == 4, "C10: supported_versions = TLS 1.3")
	typ, ver, ccs, rest, ok := refRecord(rest)
	vapi.Assert(ok && typ == 20 && ver == 0x0303 && len(ccs) == 1 && ccs[0] == 1, "C10: ChangeCipherSpec record")
	typ, ver, app, rest, ok := refRecord(rest)
	vapi.Assert(ok && typ == 23 && ver == 0x0303, "C10: one application-data record")
	vapi.Assert(len(app) == certLen && certLen > 0, "C10: application-data record carries the fake certificate, non-empty")
	vapi.Assert(len(rest) == 0, "C10: nothing after the third record")
}

// VerifC10Reply: the hand-composed server flight for every certificate length and arbitrary contents.
func VerifC10Reply() {
	sid := vapi.Bytes("sid", 32)
	var nonce [12]byte
	copy(nonce[:], vapi.Bytes("nonce", 12))
	var enc [48]byte
	copy(enc[:], vapi.Bytes("enc", 48))
	lens := []int{42, 27, 68, 59, 36, 44, 46}
	certLen := lens[vapi.Pick("cert", len(lens))]
	reply := composeReply(sid, nonce, enc, vapi.Bytes("cert", certLen))
	c10CheckReply(reply, sid, certLen)
	// the key material sits where the client looks for it
	sh := reply[5:]
	got := append(append([]byte{}, sh[6:38]...), sh[84:112]...)
	want := append(append([]byte{}, nonce[:]...), enc[:]...)
	vapi.Assert(vapi.BytesEq(got, want), "C10/C06: nonce and encrypted session key are carried in ServerHello random and key share")
	vapi.Reach("reply-end")
}

// VerifC10Responder: the real responder, driven after a real AuthFirstPacket, writes exactly that flight in one
// piece and hands back a connection that frames every later write as an application-data record.
func VerifC10Responder() {
	vConcrete = false
	vapi.ConcLimit(16)
	staticPv, pub := vServerKeys()
	sta := vState(staticPv)
	vSetClock("now")
	c := vNewClient(pub, vPlaintext(vapi.Bytes("uid", 16), []byte("shadowsocks"), 1, vNowSec, vapi.U32("sid"), false))
	_, finish, err := AuthFirstPacket(c.hello(), TLS{}, sta)
	vapi.Assert(err == nil, "C10: honest hello authenticates")
	sc, pc := vconn.Pipe(false)
	var key [32]byte
	copy(key[:], vapi.Bytes("sessionKey", 32))
	prepared, err := finish(sc, key, vTape{})
	vapi.Assert(err == nil, "C10: responder succeeds")
	vapi.Assert(len(sc.Writes) == 1, "C10: the server flight leaves in one write")
	reply := sc.Writes[0]
	certLen := len(reply) - (5 + 122) - 6 - 5
	c10CheckReply(reply, c.ct[:32], certLen)
	// later traffic
	msg := vapi.Bytes("msg", 3)
	_, err = prepared.Write(msg)
	vapi.Assert(err == nil && len(sc.Writes) == 2, "C10: later write goes out as one record")
	typ, ver, body, rest, ok := refRecord(sc.Writes[1])
	vapi.Assert(ok && typ == 23 && ver == 0x0303 && len(rest) == 0 && vapi.BytesEq(body, msg), "C10: every later byte belongs to an application-data record, version 3.3")
	_ = pc
	_, isTLS := prepared.(*common.TLSConn)
	vapi.Assert(isTLS, "C10: prepared connection is the record-framing connection")
	vapi.Reach("responder-end")
}
