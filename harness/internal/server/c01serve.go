package server

import (
	"errors"
	"net"

	mux "github.com/cbeuw/Cloak/internal/multiplex"
	"github.com/cbeuw/Cloak/internal/zzverif/vapi"
	"github.com/cbeuw/Cloak/internal/zzverif/vconn"
)

// sDialer hands out one prepared proxy-server connection per Dial.
type sDialer struct{ conns []net.Conn }

func (d *sDialer) Dial(network, address string) (net.Conn, error) {
	if len(d.conns) == 0 {
		return nil, errors.New("no more targets")
	}
	c := d.conns[0]
	d.conns = d.conns[1:]
	return c, nil
}

func sReadN(c net.Conn, want int) []byte {
	buf := make([]byte, want+4)
	got := 0
	for got < want {
		n, err := c.Read(buf[got:])
		got += n
		if err != nil {
			break
		}
	}
	return buf[:got]
}

// VerifC01Serve: the server-side relay (serveSession) with two streams opened at the same time: each proxy-server
// connection receives exactly the bytes of one stream, in order, and its replies come back on that stream, under
// every placement of the preemptions allowed.
func VerifC01Serve() {
	vapi.DetSched(true)
	vapi.SetPreemptBound(vapi.Param("preempt", 1))
	w := vPanel()
	w.addUser(vUIDs[0], 5, 1<<40, 1<<40, w.now+1000)
	var key [32]byte
	copy(key[:], vapi.Bytes("k", 32))
	oc, _ := mux.MakeObfuscator(0, key)
	os, _ := mux.MakeObfuscator(0, key)
	user, err := w.panel.GetUser(vUIDs[0])
	vapi.Assume(err == nil && user != nil)
	ss, _, err := user.GetSession(9, mux.SessionConfig{Obfuscator: os, MsgOnWireSizeLimit: appDataMaxLength})
	vapi.Assume(err == nil && ss != nil)
	cs := mux.MakeSession(9, mux.SessionConfig{Obfuscator: oc, MsgOnWireSizeLimit: appDataMaxLength})
	ca, cb := vconn.Pipe(true)
	cs.AddConnection(ca)
	ss.AddConnection(cb)

	t1s, t1 := vconn.Pipe(false) // server-side end handed to serveSession, proxy-server end
	t2s, t2 := vconn.Pipe(false)
	sta := &State{ProxyBook: map[string]net.Addr{"shadowsocks": vAddr{"127.0.0.1:8388"}}, ProxyDialer: &sDialer{conns: []net.Conn{t1s, t2s}}}
	ci := ClientInfo{UID: vUIDs[0], SessionId: 9, ProxyMethod: "shadowsocks"}

	A, B := vapi.Bytes("A", 3), vapi.Bytes("B", 3)
	A2, B2 := vapi.Bytes("A2", 2), vapi.Bytes("B2", 2)
	RA, RB := vapi.Bytes("RA", 2), vapi.Bytes("RB", 2)
	vapi.Assume(A[0] != B[0])
	var got, more [2][]byte
	var repA, repB []byte
	done := 0
	for i, t := range []*vconn.Conn{t1, t2} {
		i, t := i, t
		go func() {
			got[i] = sReadN(t, 3)
			if len(got[i]) == 3 && got[i][0] == A[0] {
				t.Write(RA)
			} else {
				t.Write(RB)
			}
			more[i] = sReadN(t, 2)
			done++
		}()
	}
	sa, _ := cs.OpenStream()
	sb, _ := cs.OpenStream()
	go func() { sa.Write(A); repA = sReadN(sa, 2); sa.Write(A2) }()
	go func() { sb.Write(B); repB = sReadN(sb, 2); sb.Write(B2) }()
	go serveSession(ss, ci, user, sta)
	vapi.Quiesce()
	vapi.Assert(done == 2, "C01: both proxy-server connections receive their stream's bytes")
	for i := 0; i < 2; i++ {
		vapi.Assert(vapi.Or(vapi.BytesEq(got[i], A), vapi.BytesEq(got[i], B)), "C01: a proxy-server connection receives the bytes of one stream, uncorrupted")
		if len(got[i]) == 3 && got[i][0] == A[0] {
			vapi.Assert(vapi.BytesEq(more[i], A2), "C01: later bytes of a stream reach the same proxy-server connection")
		} else {
			vapi.Assert(vapi.BytesEq(more[i], B2), "C01: later bytes of a stream reach the same proxy-server connection")
		}
	}
	vapi.Assert(len(got[0]) == 3 && len(got[1]) == 3 && got[0][0] != got[1][0], "C01: two streams are served by two different proxy-server connections")
	vapi.Assert(vapi.BytesEq(repA, RA) && vapi.BytesEq(repB, RB), "C01: replies come back on the stream they belong to")
	vapi.Assert(!cs.IsClosed() && !ss.IsClosed(), "C01: the session keeps working")
	vapi.Reach("serve-end")
}
