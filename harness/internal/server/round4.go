package server

import (
	"github.com/cbeuw/Cloak/internal/zzverif/vapi"
)

// VerifC06KeyShare: the key_share extension as browsers send it: 0..2 shares of other groups (GREASE, post-quantum
// hybrids: arbitrary group ids other than x25519, arbitrary contents) in front of or behind the x25519 share; the
// server recovers exactly the 32 bytes of the x25519 share, whatever the other shares contain.
func VerifC06KeyShare() {
	before := vapi.Pick("before", 3)
	after := vapi.Pick("after", 2)
	names := []string{"o0", "o1", "o2"}
	var body []byte
	add := func(i int) {
		g := vapi.Bytes(names[i]+"g", 2)
		vapi.Assume(vapi.Or(g[0] != 0x00, g[1] != 0x1d))
		d := vapi.Bytes(names[i]+"d", 1+2*i) // 1, 3, 5 bytes of arbitrary share data
		body = append(body, g...)
		body = append(body, byte(len(d)>>8), byte(len(d)))
		body = append(body, d...)
	}
	for i := 0; i < before; i++ {
		add(i)
	}
	ks := vapi.Bytes("x25519", 32)
	body = append(body, 0x00, 0x1d, 0x00, 0x20)
	body = append(body, ks...)
	for i := 0; i < after; i++ {
		add(2)
	}
	input := append([]byte{byte(len(body) >> 8), byte(len(body))}, body...)
	got, err := parseKeyShare(input)
	vapi.Assert(err == nil, "C06: the x25519 share is found whatever the other shares contain")
	vapi.Assert(err != nil || (len(got) == 32 && vapi.BytesEq(got, ks)), "C06: the server recovers exactly the bytes of the x25519 key share")
	vapi.Reach("keyshare-end")
}

// VerifC08Thrice: a captured first packet presented again and again (and a forged copy with a garbled sealed block in
// between): every presentation after the first accepted one is refused, however many have been refused before.
func VerifC08Thrice() {
	vConcrete = true
	sta, _, pkt, ts := c08Setup()
	vNowSec, vNowNsec = ts, 0
	present := func(p []byte) error {
		_, _, err := AuthFirstPacket(append([]byte{}, p...), TLS{}, sta)
		return err
	}
	vapi.Assert(present(pkt) == nil, "C08: the genuine first presentation is accepted")
	n := vapi.Param("n", 4)
	for i := 0; i < n; i++ {
		vNowSec += int64(vapi.Range("gap", 0, 20))
		switch vapi.Pick("what", 2) {
		case 0:
			vapi.Assert(present(pkt) != nil, "C08: a replay is refused, also after earlier refused presentations")
		case 1:
			forged := append([]byte{}, pkt...)
			forged[50] ^= vapi.U8("delta") | 1 // inside the session id = sealed block
			vapi.Assert(present(forged) != nil, "C08: a forged copy is refused")
		}
	}
	vapi.Assert(present(pkt) != nil, "C08: the captured packet is still refused at the end")
	vapi.Reach("thrice-end")
}
