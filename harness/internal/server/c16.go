package server

import (
	"github.com/cbeuw/Cloak/internal/zzverif/vapi"
)

// VerifC16Acct: traffic on sessions of two users interleaved with usage uploads: after traffic has stopped and a
// final upload round has completed, stored credit = initial credit - volume carried, per user and direction.
func VerifC16Acct() {
	vapi.SetPreemptBound(vapi.Param("preempt", 1))
	w := vPanel()
	up0, down0 := vapi.I64("up0"), vapi.I64("down0")
	up1, down1 := vapi.I64("up1"), vapi.I64("down1")
	for _, c := range []int64{up0, down0, up1, down1} {
		vapi.Assume(c > 1000)
		vapi.Assume(c < 1<<40)
	}
	w.addUser(vUIDs[0], 5, up0, down0, w.now+1000)
	w.addUser(vUIDs[1], 5, up1, down1, w.now+1000)
	ua, sa1, _, _ := w.admit(vUIDs[0], 1, "ka1")
	_, sa2, _, _ := w.admit(vUIDs[0], 2, "ka2")
	ub, sb1, _, _ := w.admit(vUIDs[1], 1, "kb1")
	vapi.Assume(ua != nil && ub != nil && sa1 != nil && sa2 != nil && sb1 != nil)
	// traffic events: bytes crossing the connection pools of the three sessions (metered through the sessions' valves)
	// volumes: distinct powers of two, so that any double charge, loss or cross-user charge changes a sum
	rxA1, txA1 := 1, 2
	rxA2, txA2 := 4, 8
	rxB, txB := 16, 32
	d := make([]bool, 3)
	traffic := func() {
		sa1.Valve.AddRx(int64(rxA1))
		sa1.Valve.AddTx(int64(txA1))
		sb1.Valve.AddRx(int64(rxB))
		sa2.Valve.AddRx(int64(rxA2))
		sb1.Valve.AddTx(int64(txB))
		sa2.Valve.AddTx(int64(txA2))
		d[0] = true
	}
	round := func(i int) func() {
		return func() { w.panel.updateUsageQueue(); w.panel.commitUpdate(); d[i] = true }
	}
	switch vapi.Pick("order", 3) {
	case 0:
		go traffic()
		go round(1)()
		go round(2)()
	case 1:
		go round(1)()
		go traffic()
		go round(2)()
	case 2:
		go round(1)()
		go round(2)()
		go traffic()
	}
	vapi.Quiesce()
	vapi.Assert(d[0] && d[1] && d[2], "C16/C17: traffic and upload rounds complete")
	// traffic has stopped: one final round
	w.panel.updateUsageQueue()
	w.panel.commitUpdate()
	ia, _ := w.mgr.GetUserInfo(vUIDs[0])
	ib, _ := w.mgr.GetUserInfo(vUIDs[1])
	vapi.Assert(*ia.UpCredit == up0-int64(rxA1)-int64(rxA2), "C16: upload credit = initial - bytes received from the user's clients, charged exactly once, on all its sessions")
	vapi.Assert(*ia.DownCredit == down0-int64(txA1)-int64(txA2), "C16: download credit = initial - bytes sent to the user's clients, charged exactly once")
	vapi.Assert(*ib.UpCredit == up1-int64(rxB), "C16: never charged to another user (upload)")
	vapi.Assert(*ib.DownCredit == down1-int64(txB), "C16: never charged to another user (download)")
	vapi.Assert(!sa1.IsClosed() && !sa2.IsClosed() && !sb1.IsClosed(), "C16: users with credit left keep their sessions")
	vapi.Reach("acct-end")
}

// VerifC16Cut: an upload that leaves a credit at or below zero, or finds the user expired or deleted, closes all
// of that user's sessions and forgets the user; the other user is untouched.
func VerifC16Cut() {
	w := vPanel()
	w.addUser(vUIDs[0], 5, 100, 100, w.now+1000)
	w.addUser(vUIDs[1], 5, 100, 100, w.now+1000)
	ua, sa1, _, _ := w.admit(vUIDs[0], 1, "ka1")
	_, sa2, _, _ := w.admit(vUIDs[0], 2, "ka2")
	ub, sb1, _, _ := w.admit(vUIDs[1], 1, "kb1")
	vapi.Assume(ua != nil && ub != nil)
	rx := vapi.Range("rx", 0, 200)
	tx := vapi.Range("tx", 0, 200)
	sa1.Valve.AddRx(int64(rx))
	sa2.Valve.AddTx(int64(tx))
	sb1.Valve.AddRx(1)
	cause := vapi.Pick("cause", 3)
	switch cause {
	case 1:
		w.now += 2000 // both users expire
	case 2:
		w.mgr.DeleteUser(vUIDs[0])
	}
	w.panel.updateUsageQueue()
	w.panel.commitUpdate()
	cutA := vapi.Or(vapi.Or(rx >= 100, tx >= 100), cause != 0)
	closedA := sa1.IsClosed() && sa2.IsClosed()
	vapi.Assert(vapi.Implies(cutA, closedA), "C16: a user out of credit, expired or deleted has all its sessions closed by the upload")
	vapi.Assert(vapi.Implies(cutA, !w.panel.isActive(vUIDs[0])), "C16: ... and is forgotten")
	vapi.Assert(vapi.Implies(!cutA, !sa1.IsClosed() && !sa2.IsClosed()), "C16: a user within its limits is not cut off")
	if cause != 1 {
		vapi.Assert(!sb1.IsClosed(), "C16: another user's sessions are untouched")
	}
	if cause != 2 {
		// whatever the verdict, the volume carried is deducted in both directions exactly once
		ia, _ := w.mgr.GetUserInfo(vUIDs[0])
		vapi.Assert(*ia.UpCredit == 100-int64(rx), "C16: stored upload credit = initial - volume carried, also when the upload terminates the user")
		vapi.Assert(*ia.DownCredit == 100-int64(tx), "C16: stored download credit = initial - volume carried, also when the upload terminates the user")
		ib, _ := w.mgr.GetUserInfo(vUIDs[1])
		vapi.Assert(*ib.UpCredit == 99 && *ib.DownCredit == 100, "C16: the other user is charged its own traffic only")
		// a further round charges nothing more
		w.panel.updateUsageQueue()
		w.panel.commitUpdate()
		ia, _ = w.mgr.GetUserInfo(vUIDs[0])
		vapi.Assert(*ia.UpCredit == 100-int64(rx) && *ia.DownCredit == 100-int64(tx), "C16: never deducted more than once")
	}
	vapi.Reach("cut-end")
}
