package server

import (
	"crypto/aes"
	"crypto/cipher"
	"time"

	"golang.org/x/crypto/curve25519"

	"github.com/cbeuw/Cloak/internal/common"
	"github.com/cbeuw/Cloak/internal/zzverif/ref"
	"github.com/cbeuw/Cloak/internal/zzverif/vapi"
)

// ---- reference client side of the handshake (written from the protocol description) ----

type vClient struct {
	ephPriv   [32]byte
	ephPub    [32]byte
	secret    [32]byte
	plaintext []byte // 48 bytes: UID16 | method12 | enc1 | ts8 | sid4 | flags1 | rsvd6
	ct        [64]byte
}

// vConcrete switches the key material and identity fields to fixed concrete bytes (the real primitives then run
// natively inside the engine): used where the structure of the packet, not its content, is what varies.
var vConcrete bool

func vBytes(name string, n int) []byte {
	if vConcrete {
		b := make([]byte, n)
		for i := range b {
			b[i] = byte(37*i + 11*len(name) + 5)
		}
		return b
	}
	return vapi.Bytes(name, n)
}

// vServerKeys draws a symbolic static key pair.
func vServerKeys() (priv *[32]byte, pub [32]byte) {
	priv = new([32]byte)
	copy(priv[:], vBytes("staticPv", 32))
	curve25519.ScalarBaseMult(&pub, priv)
	return
}

func vSealGCM(nonce, key, pt []byte) []byte {
	b, _ := aes.NewCipher(key)
	g, _ := cipher.NewGCM(b)
	return g.Seal(nil, nonce, pt, nil)
}

// vNewClient builds an honest authentication payload for an arbitrary 48-byte plaintext.
func vNewClient(serverPub [32]byte, plaintext []byte) *vClient {
	c := &vClient{plaintext: plaintext}
	copy(c.ephPriv[:], vBytes("ephPriv", 32))
	c.ephPriv[0] &= 248
	c.ephPriv[31] &= 127
	c.ephPriv[31] |= 64
	curve25519.ScalarBaseMult(&c.ephPub, &c.ephPriv)
	s, err := curve25519.X25519(c.ephPriv[:], serverPub[:])
	vapi.Assume(err == nil)
	copy(c.secret[:], s)
	copy(c.ct[:], vSealGCM(c.ephPub[:12], c.secret[:], plaintext))
	return c
}

// vPlaintext composes the 48-byte authentication plaintext (shared reference, see zzverif/ref).
func vPlaintext(uid []byte, method []byte, enc byte, ts int64, sid uint32, unordered bool) []byte {
	return ref.Plaintext(uid, method, enc, ts, sid, unordered)
}

// vHello builds a structurally valid TLS 1.3-style ClientHello record carrying random / session id / x25519 share.
// Layout offsets (in the record): random at 11, session id at 44, key share data at len-32.
func vHello(random, sessionID, keyShare []byte) []byte {
	var ext []byte
	// server_name (dummy, 4 bytes of data)
	ext = append(ext, 0x00, 0x00, 0x00, 0x04, 0x00, 0x02, 0x00, 0x00)
	// supported_versions
	ext = append(ext, 0x00, 0x2b, 0x00, 0x03, 0x02, 0x03, 0x04)
	// key_share: list length 2+2+2+2+1+2+2+32 ; one foreign group (0x0017, 1 byte) then x25519
	ks := []byte{0x00, 0x17, 0x00, 0x01, 0xaa, 0x00, 0x1d, 0x00, 0x20}
	ks = append(ks, keyShare...)
	ext = append(ext, 0x00, 0x33, byte((len(ks)+2)>>8), byte(len(ks)+2), byte(len(ks)>>8), byte(len(ks)))
	ext = append(ext, ks...)
	var body []byte
	body = append(body, 0x03, 0x03)
	body = append(body, random...)
	body = append(body, 0x20)
	body = append(body, sessionID...)
	body = append(body, 0x00, 0x02, 0x13, 0x01) // cipher suites
	body = append(body, 0x01, 0x00)             // compression
	body = append(body, byte(len(ext)>>8), byte(len(ext)))
	body = append(body, ext...)
	hs := []byte{0x01, byte(len(body) >> 16), byte(len(body) >> 8), byte(len(body))}
	hs = append(hs, body...)
	rec := []byte{0x16, 0x03, 0x01, byte(len(hs) >> 8), byte(len(hs))}
	return append(rec, hs...)
}

func (c *vClient) hello() []byte { return vHello(c.ephPub[:], c.ct[:32], c.ct[32:]) }

// ---- virtual wall clock ----

var vNowSec, vNowNsec int64

func vNow() time.Time { return time.Unix(vNowSec, vNowNsec) }

// vSetClock sets the server clock to an arbitrary sane instant (seconds in [0, 2^40), nanoseconds in [0, 1e9)).
func vSetClock(name string) int64 {
	vNowSec = vapi.I64(name)
	vNowNsec = vapi.I64(name + ".ns")
	vapi.Assume(vNowSec >= 0)
	vapi.Assume(vNowSec < 1<<40)
	vapi.Assume(vNowNsec >= 0)
	vapi.Assume(vNowNsec < 1000000000)
	return vNowSec
}

type vTape struct{}

func (vTape) Read(p []byte) (int, error) {
	copy(p, vapi.Bytes("tape", len(p)))
	return len(p), nil
}

func vState(staticPv *[32]byte) *State {
	return &State{
		BypassUID:  map[[16]byte]struct{}{},
		UsedRandom: map[[32]byte]int64{},
		StaticPv:   staticPv,
		WorldState: common.WorldState{Rand: vTape{}, Now: vNow},
	}
}
