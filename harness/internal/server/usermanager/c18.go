package usermanager

import (
	"time"

	"github.com/cbeuw/Cloak/internal/common"
	"github.com/cbeuw/Cloak/internal/zzverif/vapi"
)

func fakeManager(now func() int64) *localManager {
	return &localManager{db: FakeBolt(), world: common.WorldState{Now: func() time.Time { return time.Unix(now(), 0) }}}
}

var c18UIDs = [][]byte{[]byte("AAAAAAAAAAAAAAAA"), []byte("BBBBBBBBBBBBBBBB")}

type c18Ref struct {
	exists bool
	v      [6]int64 // SessionsCap, UpRate, DownRate, UpCredit, DownCredit, ExpiryTime (never-set fields read as 0)
}

func c18Info(uid []byte, mask int, vals [6]int64) UserInfo {
	u := UserInfo{UID: uid}
	if mask&1 != 0 {
		u.SessionsCap = JustInt32(int32(vals[0]))
	}
	if mask&2 != 0 {
		u.UpRate = JustInt64(vals[1])
	}
	if mask&4 != 0 {
		u.DownRate = JustInt64(vals[2])
	}
	if mask&8 != 0 {
		u.UpCredit = JustInt64(vals[3])
	}
	if mask&16 != 0 {
		u.DownCredit = JustInt64(vals[4])
	}
	if mask&32 != 0 {
		u.ExpiryTime = JustInt64(vals[5])
	}
	return u
}

func c18Check(got UserInfo, want c18Ref, what string) {
	vapi.Assert(got.SessionsCap != nil && got.UpRate != nil && got.DownRate != nil && got.UpCredit != nil && got.DownCredit != nil && got.ExpiryTime != nil, "C18: "+what+": every field is reported")
	vapi.Assert(int64(*got.SessionsCap) == int64(int32(want.v[0])), "C18: "+what+": SessionsCap is what the operation sequence implies")
	vapi.Assert(*got.UpRate == want.v[1], "C18: "+what+": UpRate is what the operation sequence implies")
	vapi.Assert(*got.DownRate == want.v[2], "C18: "+what+": DownRate is what the operation sequence implies")
	vapi.Assert(*got.UpCredit == want.v[3], "C18: "+what+": UpCredit is what the operation sequence implies")
	vapi.Assert(*got.DownCredit == want.v[4], "C18: "+what+": DownCredit is what the operation sequence implies")
	vapi.Assert(*got.ExpiryTime == want.v[5], "C18: "+what+": ExpiryTime is what the operation sequence implies")
}

// VerifC18Store: operation sequences against a reference map.
func VerifC18Store() {
	nops := vapi.Param("ops", 3)
	m := fakeManager(func() int64 { return 1700000000 })
	var ref [2]c18Ref
	names := []string{"v0", "v1", "v2", "v3", "v4", "v5"}
	masks := []int{63, 1, 2, 8, 32, 12, 0, 62}
	for op := 0; op < nops; op++ {
		u := vapi.Pick("uid", 2)
		switch vapi.Pick("op", 4+vapi.Param("upload", 1)) {
		case 4: // one usage upload carrying both users (arbitrary usage): credits of the existing ones go down by it
			upA, downA, upB, downB := vapi.I64("upA"), vapi.I64("downA"), vapi.I64("upB"), vapi.I64("downB")
			var err error
			panicked := vapi.Catch(func() {
				_, err = m.UploadStatus([]StatusUpdate{
					{UID: c18UIDs[0], Active: true, NumSession: 1, UpUsage: upA, DownUsage: downA, Timestamp: 1700000000},
					{UID: c18UIDs[1], Active: true, NumSession: 1, UpUsage: upB, DownUsage: downB, Timestamp: 1700000000}})
			})
			vapi.AssertKnown(!panicked, "C18-missing-field-panics", "C18: a usage upload never panics")
			if panicked {
				return
			}
			vapi.Assert(err == nil, "C18: usage upload accepted")
			if ref[0].exists {
				ref[0].v[3] -= upA
				ref[0].v[4] -= downA
			}
			if ref[1].exists {
				ref[1].v[3] -= upB
				ref[1].v[4] -= downB
			}
			for i := 0; i < 2; i++ { // read both back at once: each user was charged its own usage
				if ref[i].exists {
					got, gerr := m.GetUserInfo(c18UIDs[i])
					vapi.Assert(gerr == nil, "C18: existing user is found after a usage upload")
					if gerr == nil {
						c18Check(got, ref[i], "after upload")
					}
				}
			}
		case 0: // create / update with a subset of fields and arbitrary values
			mask := masks[vapi.Pick("mask", vapi.Param("masks", len(masks)))]
			var vals [6]int64
			for i := range vals {
				vals[i] = vapi.I64(names[i])
			}
			vals[0] = int64(int32(vals[0]))
			var err error
			panicked := vapi.Catch(func() { err = m.WriteUserInfo(c18Info(c18UIDs[u], mask, vals)) })
			vapi.Assert(!panicked && err == nil, "C18: write accepted")
			ref[u].exists = true
			for i := 0; i < 6; i++ {
				if mask&(1<<uint(i)) != 0 {
					ref[u].v[i] = vals[i]
				}
			}
		case 1: // read
			var got UserInfo
			var err error
			panicked := vapi.Catch(func() { got, err = m.GetUserInfo(c18UIDs[u]) })
			vapi.AssertKnown(!panicked, "C18-missing-field-panics", "C18: reading a record never panics")
			if panicked {
				return
			}
			if ref[u].exists {
				vapi.Assert(err == nil, "C18: existing user is found")
				c18Check(got, ref[u], "read")
			} else {
				vapi.Assert(err == ErrUserNotFound, "C18: a user never created or deleted is gone")
			}
		case 2: // list
			var infos []UserInfo
			var err error
			panicked := vapi.Catch(func() { infos, err = m.ListAllUsers() })
			vapi.AssertKnown(!panicked, "C18-missing-field-panics", "C18: listing never panics")
			if panicked {
				return
			}
			vapi.Assert(err == nil, "C18: list ok")
			n := 0
			for i := 0; i < 2; i++ {
				if ref[i].exists {
					n++
				}
			}
			vapi.Assert(len(infos) == n, "C18: the list has exactly the existing users")
			for _, inf := range infos {
				for i := 0; i < 2; i++ {
					if string(inf.UID) == string(c18UIDs[i]) {
						vapi.Assert(ref[i].exists, "C18: listed user exists")
						c18Check(inf, ref[i], "list")
					}
				}
			}
		case 3: // delete
			err := m.DeleteUser(c18UIDs[u])
			if ref[u].exists {
				vapi.Assert(err == nil, "C18: delete of an existing user succeeds")
			} else {
				vapi.Assert(err != nil, "C18: delete of a missing user is rejected")
			}
			ref[u] = c18Ref{}
		}
	}
	vapi.Reach("store-end")
}

// VerifC18NoPanic: whatever record the API can create, the connection path and the usage upload do not panic.
func VerifC18NoPanic() {
	now := vapi.I64("now")
	vapi.Assume(now >= 0)
	vapi.Assume(now < 1<<40)
	m := fakeManager(func() int64 { return now })
	mask := vapi.Pick("mask", 64)
	var vals [6]int64
	names := []string{"v0", "v1", "v2", "v3", "v4", "v5"}
	for i := range vals {
		vals[i] = vapi.I64(names[i])
	}
	uid := c18UIDs[0]
	err := m.WriteUserInfo(c18Info(uid, mask, vals))
	vapi.Assert(err == nil, "C18: write accepted")
	p1 := vapi.Catch(func() { m.AuthenticateUser(uid) })
	vapi.AssertKnown(!p1, "C18-missing-field-panics", "C18: AuthenticateUser never panics on a record the API can create")
	p2 := vapi.Catch(func() { m.AuthoriseNewSession(uid, AuthorisationInfo{NumExistingSessions: vapi.Int("existing")}) })
	vapi.AssertKnown(!p2, "C18-missing-field-panics", "C18: AuthoriseNewSession never panics on a record the API can create")
	p3 := vapi.Catch(func() {
		m.UploadStatus([]StatusUpdate{{UID: uid, Active: true, NumSession: 1, UpUsage: vapi.I64("up"), DownUsage: vapi.I64("down"), Timestamp: now}})
	})
	vapi.AssertKnown(!p3, "C18-missing-field-panics", "C18: UploadStatus never panics on a record the API can create")
	p4 := vapi.Catch(func() { m.ListAllUsers() })
	vapi.AssertKnown(!p4, "C18-missing-field-panics", "C18: ListAllUsers never panics on a record the API can create")
	p5 := vapi.Catch(func() { m.GetUserInfo(uid) })
	vapi.AssertKnown(!p5, "C18-missing-field-panics", "C18: GetUserInfo never panics on a record the API can create")
	vapi.Reach("nopanic-end")
}
