package usermanager

// In-memory model of the part of go.etcd.io/bbolt that localManager uses. The engine redirects the bbolt methods
// to these functions (vapi.Redirect); natively the redirects do nothing and the model is unused, so the
// counterexamples of this package are replayed by the engine's concrete mode only.
//
// Contract modelled: View/Update run the callback on a transaction; Update rolls back on error; Tx.Bucket returns
// nil for an unknown name; Bucket.Get returns nil for a missing key; Put overwrites; DeleteBucket of an unknown
// name is an error; ForEach visits buckets in creation order. File format, mmap and durability are outside.

import (
	"errors"

	bolt "go.etcd.io/bbolt"

	"github.com/cbeuw/Cloak/internal/zzverif/vapi"
)

type fbBucket struct {
	name []byte
	id   *bolt.Bucket
	keys []string
	vals [][]byte
	dead bool
}

type fbStore struct {
	buckets []*fbBucket
}

var fbStores = map[*bolt.DB]*fbStore{}
var fbTxDB = map[*bolt.Tx]*bolt.DB{}
var fbByID = map[*bolt.Bucket]*fbBucket{}

func fbEq(a, b []byte) bool {
	if len(a) != len(b) {
		return false
	}
	for i := range a {
		if a[i] != b[i] {
			return false
		}
	}
	return true
}

func (s *fbStore) find(name []byte) *fbBucket {
	for _, b := range s.buckets {
		if !b.dead && fbEq(b.name, name) {
			return b
		}
	}
	return nil
}

func (s *fbStore) snapshot() []*fbBucket {
	var out []*fbBucket
	for _, b := range s.buckets {
		c := &fbBucket{name: b.name, id: b.id, dead: b.dead}
		c.keys = append(c.keys, b.keys...)
		for _, v := range b.vals {
			c.vals = append(c.vals, append([]byte{}, v...))
		}
		out = append(out, c)
	}
	return out
}

func fbView(db *bolt.DB, fn func(*bolt.Tx) error) error {
	tx := new(bolt.Tx)
	fbTxDB[tx] = db
	return fn(tx)
}

func fbUpdate(db *bolt.DB, fn func(*bolt.Tx) error) error {
	s := fbStores[db]
	snap := s.snapshot()
	tx := new(bolt.Tx)
	fbTxDB[tx] = db
	fbPending = nil
	err := fn(tx)
	if err != nil {
		fbPending = nil
		s.buckets = snap
		for _, b := range snap {
			fbByID[b.id] = b
		}
	} else {
		fbCommit()
	}
	return err
}

func fbTxBucket(tx *bolt.Tx, name []byte) *bolt.Bucket {
	b := fbStores[fbTxDB[tx]].find(name)
	if b == nil {
		return nil
	}
	return b.id
}

func fbCreateBucketIfNotExists(tx *bolt.Tx, name []byte) (*bolt.Bucket, error) {
	if len(name) == 0 {
		return nil, errors.New("bucket name required")
	}
	s := fbStores[fbTxDB[tx]]
	if b := s.find(name); b != nil {
		return b.id, nil
	}
	b := &fbBucket{name: append([]byte{}, name...), id: new(bolt.Bucket)}
	fbByID[b.id] = b
	s.buckets = append(s.buckets, b)
	return b.id, nil
}

func fbDeleteBucket(tx *bolt.Tx, name []byte) error {
	s := fbStores[fbTxDB[tx]]
	b := s.find(name)
	if b == nil {
		return errors.New("bucket not found")
	}
	b.dead = true
	return nil
}

func fbForEach(tx *bolt.Tx, fn func(name []byte, b *bolt.Bucket) error) error {
	s := fbStores[fbTxDB[tx]]
	for _, b := range s.buckets {
		if b.dead {
			continue
		}
		if err := fn(b.name, b.id); err != nil {
			return err
		}
	}
	return nil
}

func fbGet(id *bolt.Bucket, key []byte) []byte {
	b := fbByID[id]
	for i, k := range b.keys {
		if k == string(key) {
			return b.vals[i]
		}
	}
	return nil
}

func fbPut(id *bolt.Bucket, key []byte, value []byte) error {
	// bbolt: "Supplied value must remain valid for the life of the transaction": the slice is kept by reference
	// until the transaction commits (fbUpdate copies it then); the key is copied at once
	b := fbByID[id]
	for i, k := range b.keys {
		if k == string(key) {
			b.vals[i] = value
			fbPending = append(fbPending, fbSlot{b, i})
			return nil
		}
	}
	b.keys = append(b.keys, string(key))
	b.vals = append(b.vals, value)
	fbPending = append(fbPending, fbSlot{b, len(b.vals) - 1})
	return nil
}

type fbSlot struct {
	b *fbBucket
	i int
}

// values put by the running read-write transaction, still aliasing the caller's slices
var fbPending []fbSlot

func fbCommit() {
	for _, s := range fbPending {
		if s.i < len(s.b.vals) {
			s.b.vals[s.i] = append([]byte{}, s.b.vals[s.i]...)
		}
	}
	fbPending = nil
}

// FakeBolt installs the redirects and returns a fresh database handle backed by the model.
func FakeBolt() *bolt.DB {
	vapi.Redirect("(*go.etcd.io/bbolt.DB).View", fbView)
	vapi.Redirect("(*go.etcd.io/bbolt.DB).Update", fbUpdate)
	vapi.Redirect("(*go.etcd.io/bbolt.Tx).Bucket", fbTxBucket)
	vapi.Redirect("(*go.etcd.io/bbolt.Tx).CreateBucketIfNotExists", fbCreateBucketIfNotExists)
	vapi.Redirect("(*go.etcd.io/bbolt.Tx).DeleteBucket", fbDeleteBucket)
	vapi.Redirect("(*go.etcd.io/bbolt.Tx).ForEach", fbForEach)
	vapi.Redirect("(*go.etcd.io/bbolt.Bucket).Get", fbGet)
	vapi.Redirect("(*go.etcd.io/bbolt.Bucket).Put", fbPut)
	db := new(bolt.DB)
	fbStores[db] = &fbStore{}
	return db
}

// NewFakeManager returns the real localManager over the model database (exported for the server-package harnesses).
func NewFakeManager(now func() int64) UserManager {
	return fakeManager(now)
}
