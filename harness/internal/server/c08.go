package server

import (
	"github.com/cbeuw/Cloak/internal/zzverif/vapi"
)

func c08Setup() (*State, *vClient, []byte, int64) {
	vapi.Adversary(true) // nobody but the client can produce a valid sealed block
	vapi.EagerOffsets(true)
	vapi.ConcLimit(300)
	staticPv, serverPub := vServerKeys()
	sta := vState(staticPv)
	ts := vapi.I64("ts")
	var pt []byte
	if vConcrete {
		ts = 1700000000
		pt = vPlaintext(vBytes("uid", 16), []byte("shadowsocks"), 1, ts, 77, false)
	} else {
		pt = vPlaintext(vapi.Bytes("uid", 16), []byte("shadowsocks"), vapi.U8("enc"), ts, vapi.U32("sid"), vapi.Bool("unordered"))
	}
	c := vNewClient(serverPub, pt)
	return sta, c, c.hello(), ts
}

// VerifC08Hist: a packet accepted at T1 is rejected at any later T2, whatever clean-ups of the replay memory
// happen in between (0..2 passes of the real UsedRandomCleaner loop body at arbitrary instants).
func VerifC08Hist() {
	vapi.SleepBlocks(true)
	sta, _, pkt, _ := c08Setup()
	go sta.UsedRandomCleaner()
	vapi.Quiesce() // cleaner parked in its first Sleep
	t1 := vSetClock("t1")
	cp := append([]byte{}, pkt...)
	_, _, err := AuthFirstPacket(cp, TLS{}, sta)
	vapi.Assume(err == nil) // first presentation accepted (in window at T1)
	prev := t1
	passes := vapi.Pick("passes", 1+vapi.Param("maxpasses", 2))
	for i := 0; i < passes; i++ {
		tc := vSetClock("tc")
		vapi.Assume(tc >= prev)
		prev = tc
		vapi.WakeSleepers()
		vapi.Quiesce() // one iteration of the cleaner loop
	}
	t2 := vSetClock("t2")
	vapi.Assume(t2 >= prev)
	cp2 := append([]byte{}, pkt...)
	_, _, err2 := AuthFirstPacket(cp2, TLS{}, sta)
	if passes == 0 {
		vapi.Assert(err2 != nil, "C08: the same first packet is never accepted twice")
		vapi.Reach("hist-nocleanup")
	} else {
		vapi.AssertKnown(err2 != nil, "C08-cleaner-evicts-entries-still-in-window", "C08: the same first packet is never accepted twice, across clean-ups of the replay memory")
		vapi.Reach("hist-cleanup")
	}
}

// VerifC08Mall: a copy altered outside the sealed identity block (ClientHello random, structure bytes) is
// rejected whenever the original has been seen.
func VerifC08Mall() {
	region := vapi.Pick("region", 3)
	// structural single-bit flips are explored on a concrete packet (real X25519 / AES-GCM run natively):
	// otherwise garbled length fields make the parser read sealed bytes as lengths and the search explodes
	vConcrete = region != 0
	sta, _, pkt, _ := c08Setup()
	if vConcrete {
		vNowSec, vNowNsec = 1700000005, 0
	} else {
		vSetClock("t1")
	}
	cp := append([]byte{}, pkt...)
	_, _, err := AuthFirstPacket(cp, TLS{}, sta)
	vapi.Assume(err == nil)
	// offsets in the record: random 11..42 ; session id 44..75 ; key share = last 32 bytes
	n := len(pkt)
	m2 := append([]byte{}, pkt...)
	onlyTopBit := false
	switch region {
	case 0: // the 32 random bytes (client ephemeral public key), any non-zero delta
		d := vapi.Bytes("delta", 32)
		nz := false
		rest := false
		for i := range d {
			nz = vapi.Or(nz, d[i] != 0)
			m2[11+i] ^= d[i]
			if i < 31 {
				rest = vapi.Or(rest, d[i] != 0)
			}
		}
		vapi.Assume(nz)
		onlyTopBit = vapi.And(!rest, d[31] == 0x80)
	case 1: // one structural byte before the random
		pos := vapi.Pick("pos", 11)
		m2[pos] ^= byte(1) << uint(vapi.Pick("bit", 8)) // every single-bit flip
	case 2: // one structural byte between session id and key share
		pos := 76 + vapi.Pick("pos", n-32-76)
		m2[pos] ^= byte(1) << uint(vapi.Pick("bit", 8)) // every single-bit flip
	}
	_, _, err2 := AuthFirstPacket(m2, TLS{}, sta)
	if onlyTopBit {
		vapi.AssertKnown(err2 != nil, "C08-x25519-high-bit-not-in-replay-key", "C08: a copy with only the ignored top bit of the X25519 public key flipped is rejected")
		vapi.Reach("mall-topbit")
	} else {
		vapi.Assert(err2 != nil, "C08: an altered copy carrying the same sealed identity block is rejected")
		vapi.Reach("mall-other")
	}
}

// VerifC08Conc: N simultaneous presentations of one packet: at most one is accepted.
func VerifC08Conc() {
	vapi.SetPreemptBound(vapi.Param("preempt", 2))
	sta, _, pkt, _ := c08Setup()
	vSetClock("t1")
	n := vapi.Param("threads", 2)
	accepted := 0
	done := 0
	for i := 0; i < n; i++ {
		cp := append([]byte{}, pkt...)
		go func() {
			_, _, err := AuthFirstPacket(cp, TLS{}, sta)
			if err == nil {
				accepted++
			}
			done++
		}()
	}
	vapi.Quiesce()
	vapi.Assert(done == n, "C08: every presentation returns")
	vapi.Assert(accepted <= 1, "C08: concurrent presentations of one packet are accepted at most once")
	vapi.Reach("conc-end")
}

// VerifC08CleanRace: a clean-up pass of the replay memory overlapping with the first presentation of a packet:
// whatever the interleaving, the presentation is remembered and a replay one second later is refused.
func VerifC08CleanRace() {
	vapi.SleepBlocks(true)
	vapi.SetPreemptBound(vapi.Param("preempt", 2))
	vConcrete = true
	sta, _, pkt, ts := c08Setup()
	vNowSec, vNowNsec = ts, 0
	// entries for the pass to scan: one long expired, one recent
	sta.UsedRandom[[32]byte{1}] = ts - 1000000
	sta.UsedRandom[[32]byte{2}] = ts - 10
	go sta.UsedRandomCleaner()
	vapi.Quiesce() // cleaner parked in its Sleep
	var err1 error
	done := false
	cp := append([]byte{}, pkt...)
	go func() { _, _, err1 = AuthFirstPacket(cp, TLS{}, sta); done = true }()
	vapi.WakeSleepers() // a pass starts now, racing with the presentation
	vapi.Quiesce()
	vapi.Assert(done && err1 == nil, "C08: the first presentation is accepted")
	_, expired := sta.UsedRandom[[32]byte{1}]
	_, recent := sta.UsedRandom[[32]byte{2}]
	vapi.Assert(!expired && recent, "C08: the pass evicts exactly the entries whose window has closed")
	vNowSec = ts + 1
	cp2 := append([]byte{}, pkt...)
	_, _, err2 := AuthFirstPacket(cp2, TLS{}, sta)
	vapi.Assert(err2 != nil, "C08: a handshake accepted while a clean-up pass was running is still refused when replayed")
	vapi.Reach("cleanrace-end")
}
