// Package vconn is the in-memory network model used by the harnesses: net.Conn pairs whose byte stream can be
// segmented arbitrarily (every Read returns a symbolic 1..available bytes), with write logs, close tracking and
// injectable faults. It is ordinary Go: the engine executes it from SSA, a native replay compiles it as is.
package vconn

import (
	"errors"
	"io"
	"net"
	"sync"
	"time"

	"github.com/cbeuw/Cloak/internal/zzverif/vapi"
)

type Addr struct{}

func (Addr) Network() string { return "vconn" }
func (Addr) String() string  { return "vconn:0" }

var ErrClosed = errors.New("vconn: use of closed connection")
var ErrReset = errors.New("vconn: connection reset by peer")
var ErrInjected = errors.New("vconn: injected write failure")

type half struct {
	mu     sync.Mutex
	cond   *sync.Cond
	data   []byte
	msgs   [][]byte
	fly    [][]byte // message mode with Hold: written but not yet delivered ("in the network")
	closed bool     // writer side closed: EOF after draining
	broken bool     // reader side gone / reset: immediate error for both ends
}

func newHalf() *half {
	h := &half{}
	h.cond = sync.NewCond(&h.mu)
	return h
}

type Conn struct {
	Name       string
	r, w       *half
	Message    bool // one Write is delivered by exactly one Read
	Hold       bool // message mode: writes stay in flight until Deliver() hands them to the peer's reader
	Segment    bool // stream mode: each Read returns a symbolic count in 1..min(len(p), available)
	MaxChunks  int  // number of Reads that may return a short count (later Reads return all that is available)
	chunks     int
	Writes     [][]byte // copies of every Write on this end
	Closed     bool
	CloseCnt   int
	StallWrite bool // Write blocks (back-pressure) until Unstall, Close or Reset
	FailWrite  int  // the k-th Write (1-based) on this end fails without sending anything; 0 = never
	nWrites    int
	ReadBytes  int
	// deadlines are recorded, not enforced (the model has no clock): a harness can assert that none is left armed
	WriteClock    []int64 // virtual-clock instant of every Write on this end
	ReadDeadline  time.Time
	WriteDeadline time.Time
}

// Pipe returns the two ends of a duplex in-memory connection.
func Pipe(message bool) (*Conn, *Conn) {
	ab, ba := newHalf(), newHalf()
	a := &Conn{Name: "a", r: ba, w: ab, Message: message, MaxChunks: 3}
	b := &Conn{Name: "b", r: ab, w: ba, Message: message, MaxChunks: 3}
	return a, b
}

func min(a, b int) int {
	if a < b {
		return a
	}
	return b
}

func (c *Conn) Read(p []byte) (int, error) {
	h := c.r
	h.mu.Lock()
	defer h.mu.Unlock()
	for {
		if c.Closed {
			return 0, ErrClosed
		}
		if h.broken {
			return 0, ErrReset
		}
		if c.Message {
			if len(h.msgs) > 0 {
				m := h.msgs[0]
				h.msgs = h.msgs[1:]
				n := copy(p, m)
				c.ReadBytes += n
				return n, nil
			}
		} else if len(h.data) > 0 {
			if len(p) == 0 {
				return 0, nil
			}
			k := vapi.Concretize(min(len(p), len(h.data)))
			if c.Segment && c.chunks < c.MaxChunks && k > 1 {
				c.chunks++
				k = 1 + vapi.Pick("seg", k)
			}
			copy(p, h.data[:k])
			h.data = h.data[k:]
			c.ReadBytes += k
			return k, nil
		}
		if h.closed && len(h.fly) == 0 {
			// like TCP: data sent before the close is delivered before the end of stream
			return 0, io.EOF
		}
		h.cond.Wait()
	}
}

func (c *Conn) Write(p []byte) (int, error) {
	h := c.w
	h.mu.Lock()
	defer h.mu.Unlock()
	c.nWrites++
	for c.StallWrite && !c.Closed && !h.broken && !h.closed {
		h.cond.Wait() // a full socket buffer: the writer is held until the harness lets the connection drain
	}
	if c.Closed {
		return 0, ErrClosed
	}
	if h.broken || h.closed {
		return 0, ErrReset
	}
	if c.FailWrite != 0 && c.nWrites == c.FailWrite {
		return 0, ErrInjected
	}
	cp := make([]byte, len(p))
	copy(cp, p)
	c.Writes = append(c.Writes, cp)
	c.WriteClock = append(c.WriteClock, vapi.Clock())
	if c.Message {
		if c.Hold {
			h.fly = append(h.fly, cp)
			return len(p), nil
		}
		h.msgs = append(h.msgs, cp)
	} else {
		h.data = append(h.data, cp...)
	}
	h.cond.Broadcast()
	return len(p), nil
}

// InFlight is the number of messages written on this end and not yet delivered to the peer.
func (c *Conn) InFlight() int {
	c.w.mu.Lock()
	defer c.w.mu.Unlock()
	return len(c.w.fly)
}

// Deliver hands the oldest in-flight message of this end to the peer's reader (per-connection FIFO, as TCP).
func (c *Conn) Deliver() {
	h := c.w
	h.mu.Lock()
	if len(h.fly) > 0 {
		h.msgs = append(h.msgs, h.fly[0])
		h.fly = h.fly[1:]
		h.cond.Broadcast()
	}
	h.mu.Unlock()
}

// Close closes this end: the peer reads EOF after draining, local reads and writes fail, peer writes fail.
func (c *Conn) Close() error {
	c.CloseCnt++
	c.w.mu.Lock()
	c.w.closed = true
	c.w.cond.Broadcast()
	c.w.mu.Unlock()
	c.r.mu.Lock()
	already := c.Closed
	c.Closed = true
	c.r.broken = true
	c.r.cond.Broadcast()
	c.r.mu.Unlock()
	if already {
		return ErrClosed
	}
	return nil
}

// Reset simulates a connection reset seen by both ends: pending data is discarded.
func (c *Conn) Reset() {
	for _, h := range []*half{c.r, c.w} {
		h.mu.Lock()
		h.broken = true
		h.data = nil
		h.msgs = nil
		h.fly = nil
		h.cond.Broadcast()
		h.mu.Unlock()
	}
}

// Feed appends raw bytes to what this end will read (as if the peer had written them).
func (c *Conn) Feed(b []byte) {
	h := c.r
	h.mu.Lock()
	if c.Message {
		h.msgs = append(h.msgs, b)
	} else {
		h.data = append(h.data, b...)
	}
	h.cond.Broadcast()
	h.mu.Unlock()
}

// FeedEOF makes this end read EOF after the pending data.
func (c *Conn) FeedEOF() {
	h := c.r
	h.mu.Lock()
	h.closed = true
	h.cond.Broadcast()
	h.mu.Unlock()
}

// Pending returns the number of unread bytes waiting for this end.
func (c *Conn) Pending() int {
	h := c.r
	h.mu.Lock()
	defer h.mu.Unlock()
	if c.Message {
		n := 0
		for _, m := range h.msgs {
			n += len(m)
		}
		return n
	}
	return len(h.data)
}

func (c *Conn) PendingMsgs() int {
	c.r.mu.Lock()
	defer c.r.mu.Unlock()
	return len(c.r.msgs)
}

func (c *Conn) LocalAddr() net.Addr  { return Addr{} }
func (c *Conn) RemoteAddr() net.Addr { return Addr{} }
func (c *Conn) SetDeadline(t time.Time) error {
	c.ReadDeadline, c.WriteDeadline = t, t
	return nil
}
func (c *Conn) SetReadDeadline(t time.Time) error  { c.ReadDeadline = t; return nil }
func (c *Conn) SetWriteDeadline(t time.Time) error { c.WriteDeadline = t; return nil }

// LenConn is a length-only connection for the "all lengths" harnesses: it tracks how many bytes are available,
// not what they are. Reads return a symbolic count (no forking); at most MaxShort short reads.
type LenConn struct {
	Avail    int // bytes the peer has sent (symbolic)
	EOF      bool
	MaxShort int
	short    int
	Consumed int
	WriteLen []int
	WroteBuf [][]byte
	Closed   bool
	First    []byte // known first bytes of the stream (stored into the reader's buffer), the rest is abstract
}

func (c *LenConn) Read(p []byte) (int, error) {
	if len(p) == 0 {
		return 0, nil
	}
	if c.Avail <= 0 {
		if c.EOF {
			return 0, io.EOF
		}
		vapi.Fail("vconn.LenConn: read would block for ever (harness must provide EOF)")
	}
	k := len(p)
	if c.Avail < k {
		k = c.Avail
	}
	if c.short < c.MaxShort {
		c.short++
		k = vapi.Range("chunk", 1, k)
	}
	for i := 0; i < len(c.First) && c.Consumed+i < len(c.First); i++ {
		if c.Consumed == 0 && i < len(p) {
			p[i] = c.First[i]
		}
	}
	c.Avail -= k
	c.Consumed += k
	return k, nil
}

func (c *LenConn) Write(p []byte) (int, error) {
	c.WriteLen = append(c.WriteLen, len(p))
	c.WroteBuf = append(c.WroteBuf, p)
	return len(p), nil
}
func (c *LenConn) Close() error                       { c.Closed = true; return nil }
func (c *LenConn) LocalAddr() net.Addr                { return Addr{} }
func (c *LenConn) RemoteAddr() net.Addr               { return Addr{} }
func (c *LenConn) SetDeadline(t time.Time) error      { return nil }
func (c *LenConn) SetReadDeadline(t time.Time) error  { return nil }
func (c *LenConn) SetWriteDeadline(t time.Time) error { return nil }

// Unstall releases writers held by StallWrite.
func (c *Conn) Unstall() {
	h := c.w
	h.mu.Lock()
	c.StallWrite = false
	h.cond.Broadcast()
	h.mu.Unlock()
}
