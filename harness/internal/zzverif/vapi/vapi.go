// Package vapi is the harness API. Inside the gosym engine every function here is intercepted by name
// (the bodies below never run); compiled natively the bodies replay a recorded counterexample:
// named draws come from the JSON file in $VERIF_REPLAY (missing names default to 0), Assume stops the run
// quietly when false, Assert records a failure.
package vapi

import (
	"encoding/json"
	"fmt"
	"os"
	"strconv"
	"strings"
	"time"
)

type replay struct {
	Model     map[string]uint64 `json:"model"`
	Decisions []int             `json:"decisions"`
	Picks     []int             `json:"picks"`
}

var (
	rp       replay
	loaded   bool
	counts   = map[string]int{}
	pickPos  int
	Failures []string
	params   = map[string]int{}
	tier     int
)

type assumeFailed struct{}

func load() {
	if loaded {
		return
	}
	loaded = true
	rp.Model = map[string]uint64{}
	if f := os.Getenv("VERIF_REPLAY"); f != "" {
		b, err := os.ReadFile(f)
		if err == nil {
			_ = json.Unmarshal(b, &rp)
		}
	}
	if rp.Model == nil {
		rp.Model = map[string]uint64{}
	}
	if t := os.Getenv("VERIF_TIER"); t == "thorough" {
		tier = 1
	}
}

// Reset prepares for another native attempt with the same replay file.
func Reset() {
	load()
	counts = map[string]int{}
	pickPos = 0
}

func draw(name string) uint64 {
	load()
	k := counts[name]
	counts[name] = k + 1
	if k > 0 {
		name = name + "#" + strconv.Itoa(k)
	}
	if v, ok := rp.Model[name]; ok || randSeed == 0 {
		return v
	}
	return seedHash(randSeed, name)
}

// randSeed != 0: translator-validation run; draws missing from the model are pseudo-random (same function as
// the engine's concrete mode).
var randSeed uint64

func seedHash(seed uint64, name string) uint64 {
	h := uint64(14695981039346656037)
	s := fmt.Sprintf("%d:%s", seed, name)
	for i := 0; i < len(s); i++ {
		h ^= uint64(s[i])
		h *= 1099511628211
	}
	return h
}

var (
	Observed []string
	Reached  []string
)

func U8(name string) uint8   { return uint8(draw(name)) }
func U16(name string) uint16 { return uint16(draw(name)) }
func U32(name string) uint32 { return uint32(draw(name)) }
func U64(name string) uint64 { return draw(name) }
func I64(name string) int64  { return int64(draw(name)) }
func I32(name string) int32  { return int32(draw(name)) }
func Int(name string) int    { return int(int64(draw(name))) }
func Bool(name string) bool  { return draw(name) != 0 }

func Bytes(name string, n int) []byte {
	b := make([]byte, n)
	for i := range b {
		b[i] = uint8(draw(fmt.Sprintf("%s[%d]", name, i)))
	}
	return b
}

// AbstractBytes is a content-abstract buffer in the engine; natively an ordinary zeroed buffer.
func AbstractBytes(name string, n int) []byte { return make([]byte, n) }

// Range draws an int in [lo,hi].
func Range(name string, lo, hi int) int {
	v := Int(name)
	if randSeed != 0 && hi >= lo && (v < lo || v > hi) {
		v = lo + int(uint64(v)%uint64(hi-lo+1))
	}
	Assume(lo <= v && v <= hi)
	return v
}

// Pick returns a concrete int in [0,n); the engine forks over all values.
func Pick(name string, n int) int {
	load()
	if pickPos < len(rp.Picks) {
		v := rp.Picks[pickPos]
		pickPos++
		if v >= 0 && v < n {
			return v
		}
	}
	pickPos++
	if randSeed != 0 {
		return int(seedHash(randSeed, "ctl#"+strconv.Itoa(pickPos-1)) % uint64(n))
	}
	v := int(draw("pick:" + name))
	if v < 0 || v >= n {
		return 0
	}
	return v
}

func Concretize(v int) int { return v }

func Assume(c bool) {
	if !c {
		panic(assumeFailed{})
	}
}

func Assert(c bool, msg string) {
	if !c {
		Failures = append(Failures, msg)
	}
}

func AssertKnown(c bool, id string, msg string) {
	if !c {
		Failures = append(Failures, "["+id+"] "+msg)
	}
}

func Fail(msg string) { Failures = append(Failures, msg); panic(assumeFailed{}) }

func And(a, b bool) bool     { return a && b }
func Or(a, b bool) bool      { return a || b }
func Not(a bool) bool        { return !a }
func Implies(a, b bool) bool { return !a || b }
func IteU64(c bool, a, b uint64) uint64 {
	if c {
		return a
	}
	return b
}
func IteInt(c bool, a, b int) int {
	if c {
		return a
	}
	return b
}
func IteU8(c bool, a, b uint8) uint8 {
	if c {
		return a
	}
	return b
}

func BytesEq(a, b []byte) bool {
	if len(a) != len(b) {
		return false
	}
	for i := range a {
		if a[i] != b[i] {
			return false
		}
	}
	return true
}
func StrEq(a, b string) bool { return a == b }

func Reach(label string)             { Reached = append(Reached, label) }
func Observe(label string, v uint64) { Observed = append(Observed, label+"="+strconv.FormatUint(v, 10)) }
func Symbolic() bool                 { return false }
func Native() bool                   { return true }
func Tier() int                      { load(); return tier }
func Param(name string, def int) int {
	for _, kv := range strings.Split(os.Getenv("VERIF_PARAMS"), ",") {
		p := strings.SplitN(kv, "=", 2)
		if len(p) == 2 && p[0] == name {
			if v, err := strconv.Atoi(p[1]); err == nil {
				return v
			}
		}
	}
	return def
}
func SetPreemptBound(n int)                {}
func PoolMode(m int)                       {}
func Adversary(on bool)                    {}
func MapOrderNondet(on bool)               {}
func ConcLimit(n int)                      {}
func RandIntEdges(on bool)                 {}
func RandIntSmall(on bool)                 {}
func Redirect(name string, fn interface{}) {}
func Yield()                               {}
func NoPreempt(on bool)                    {}
func Quiesce()                             {}
func ExpectDeadlock(id string)             {}
func SleepBlocks(on bool)                  {}
func EagerOffsets(on bool)                 {}
func HTTPServeCalls() int                  { return 0 }
func TimedSleep(on bool)                   {}
func RandZero(on bool)                     {}
func DetSched(on bool)                     {}
func FineGrain(fn string)                  {}
func WakeSleepers()                        {}

// WouldBlock natively: run f in a goroutine and wait briefly.
func WouldBlock(f func()) bool {
	done := make(chan struct{})
	go func() { defer func() { recover(); close(done) }(); f() }()
	select {
	case <-done:
		return false
	case <-time.After(300 * time.Millisecond):
		return true
	}
}

func Go(f func()) int     { go f(); return 0 }
func Join(id int)         {}
func Done(id int) bool    { return true }
func Blocked(id int) bool { return false }

func Clock() int64         { return 0 }
func AdvanceClock(d int64) {}
func NumSleeps() int       { return 0 }
func SleepDur(i int) int64 { return 0 }
func NumTimers() int       { return 0 }
func TimerLive(i int) bool { return false }
func FireTimer(i int) bool { return false }

// Catch runs f and reports whether it panicked (ordinary Go; also executed as such inside the engine).
func Catch(f func()) (panicked bool) {
	defer func() {
		if r := recover(); r != nil {
			if _, ok := r.(assumeFailed); ok {
				panic(r)
			}
			panicked = true
		}
	}()
	f()
	return false
}

// RunValidate runs the harness natively for seeds 1..n with pseudo-random inputs and returns a JSON summary that
// bin/vcheck compares with the engine's concrete runs on the same seeds (translator validation).
func RunValidate(h func(), n int) string {
	type vres struct {
		Seed     int      `json:"seed"`
		Status   string   `json:"status"`
		Failures []string `json:"failures"`
		Observes []string `json:"observes"`
		Reached  []string `json:"reached"`
	}
	var out []vres
	for s := 1; s <= n; s++ {
		randSeed = uint64(s)
		Observed, Reached = nil, nil
		fails, diverged := RunNative(h)
		r := vres{Seed: s, Status: "ok", Failures: fails, Observes: Observed, Reached: Reached}
		if diverged {
			r.Status = "infeasible"
		} else if len(fails) > 0 {
			r.Status = "violation"
		}
		out = append(out, r)
	}
	randSeed = 0
	b, _ := json.Marshal(out)
	return string(b)
}

// RunNative runs a harness natively and reports (failures, diverged).
func RunNative(h func()) (fails []string, diverged bool) {
	Failures = nil
	Reset()
	func() {
		defer func() {
			if r := recover(); r != nil {
				if _, ok := r.(assumeFailed); ok {
					diverged = len(Failures) == 0
					return
				}
				Failures = append(Failures, fmt.Sprintf("uncaught panic: %v", r))
			}
		}()
		h()
	}()
	return Failures, diverged
}
