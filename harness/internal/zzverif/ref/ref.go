// Package ref holds the reference description of the Cloak authentication payload shared by the client-side and
// server-side harnesses (one text, so both ends are checked against the same layout).
package ref

// Plaintext composes the 48-byte authentication plaintext:
// UID(16) | proxy method(12, zero padded) | encryption method(1) | timestamp(8, big endian) | session id(4) | flags(1) | reserved(6)
func Plaintext(uid []byte, method []byte, enc byte, ts int64, sid uint32, unordered bool) []byte {
	p := make([]byte, 48)
	copy(p, uid)
	copy(p[16:28], method)
	p[28] = enc
	for i := 0; i < 8; i++ {
		p[29+i] = byte(uint64(ts) >> uint(56-8*i))
	}
	p[37] = byte(sid >> 24)
	p[38] = byte(sid >> 16)
	p[39] = byte(sid >> 8)
	p[40] = byte(sid)
	if unordered {
		p[41] = 1
	}
	return p
}
