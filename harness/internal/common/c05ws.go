package common

import (
	"io"
	"net/http"
	"net/http/httptest"
	"strings"

	"github.com/cbeuw/Cloak/internal/zzverif/vapi"
	"github.com/gorilla/websocket"
)

// ---- model of gorilla/websocket.Conn as WebSocketConn uses it (engine only; natively the real library runs) ----
//
// Contract transcribed from gorilla/websocket v1.5.3 conn.go:
//   NextReader returns the type of the next data message and a reader for it; whatever was left unread of the
//     previous message is discarded.
//   messageReader.Read(b): while bytes of the message remain it returns between 1 and min(len(b), remaining) bytes
//     and a nil error - 0 bytes and a nil error when len(b) == 0; once nothing remains it returns (0, io.EOF).
//   WriteMessage(t, data) sends data as one message; the library requires that at most one goroutine calls the
//     write methods at a time.

type wsModel struct {
	types   []int
	msgs    [][]byte
	next    int
	inWrite bool
	overlap bool
	written [][]byte
}

var wsM *wsModel

type wsMsgReader struct{ rem []byte }

func (r *wsMsgReader) Read(b []byte) (int, error) {
	if len(r.rem) == 0 {
		return 0, io.EOF
	}
	n := len(b)
	if n > len(r.rem) {
		n = len(r.rem)
	}
	if n > 1 {
		n = 1 + vapi.Pick("wschunk", n) // the buffered network reader may return fewer bytes than asked for
	}
	copy(b, r.rem[:n])
	r.rem = r.rem[n:]
	return n, nil
}

func wsNextReader(c *websocket.Conn) (int, io.Reader, error) {
	m := wsM
	if m.next >= len(m.msgs) {
		return 0, nil, io.EOF
	}
	i := m.next
	m.next++
	return m.types[i], &wsMsgReader{rem: m.msgs[i]}, nil
}

func wsWriteMessage(c *websocket.Conn, t int, data []byte) error {
	m := wsM
	if m.inWrite {
		m.overlap = true
	}
	m.inWrite = true
	half := len(data) / 2
	cp := append([]byte{}, data[:half]...)
	vapi.Yield() // the frame goes out in pieces: another goroutine may run here
	cp = append(cp, data[half:]...)
	m.written = append(m.written, cp)
	m.inWrite = false
	return nil
}

// c05WS returns a WebSocketConn that will receive msgs (with the given message types). In the engine the gorilla
// connection is the model above; natively it is a real gorilla connection over loopback TCP.
func c05WS(types []int, msgs [][]byte) (*WebSocketConn, func()) {
	if !vapi.Native() {
		wsM = &wsModel{types: types, msgs: msgs}
		vapi.Redirect("(*github.com/gorilla/websocket.Conn).NextReader", wsNextReader)
		vapi.Redirect("(*github.com/gorilla/websocket.Conn).WriteMessage", wsWriteMessage)
		return &WebSocketConn{Conn: new(websocket.Conn)}, func() {}
	}
	up := websocket.Upgrader{}
	srv := httptest.NewServer(http.HandlerFunc(func(w http.ResponseWriter, r *http.Request) {
		c, err := up.Upgrade(w, r, nil)
		if err != nil {
			return
		}
		for i := range msgs {
			c.WriteMessage(types[i], msgs[i])
		}
		c.Close()
	}))
	c, _, err := websocket.DefaultDialer.Dial("ws"+strings.TrimPrefix(srv.URL, "http"), nil)
	if err != nil {
		panic(err)
	}
	return &WebSocketConn{Conn: c}, func() { c.Close(); srv.Close() }
}

// VerifC05WSRead: WebSocket transport: each binary message is returned by exactly one Read, whole and in order,
// however the library hands its bytes over; a message larger than the reader's buffer is an error, never delivered
// truncated; the message after it is still delivered whole.
func VerifC05WSRead() {
	const bufLen = 4
	lens := []int{0, 1, bufLen - 1, bufLen, bufLen + 1, 2 * bufLen}
	l0 := lens[vapi.Pick("len0", len(lens))]
	m0 := vapi.Bytes("m0", l0)
	m1 := vapi.Bytes("m1", 2)
	ws, done := c05WS([]int{websocket.BinaryMessage, websocket.BinaryMessage}, [][]byte{m0, m1})
	defer done()
	buf := make([]byte, bufLen)
	n, err := ws.Read(buf)
	if l0 <= bufLen {
		vapi.Assert(err == nil && n == l0, "C05: a message that fits the buffer is returned whole by one Read")
		vapi.Assert(n <= bufLen && vapi.BytesEq(buf[:n], m0), "C05: message delivered unaltered")
	} else {
		vapi.Assert(err != nil, "C05: a message larger than the reader's buffer is reported as an error, never delivered truncated")
	}
	n, err = ws.Read(buf)
	vapi.Assert(err == nil && n == 2 && vapi.BytesEq(buf[:2], m1), "C05: the next message is delivered whole by the next Read")
	vapi.Reach("wsread-end")
}

// VerifC05WSWrite: messages written concurrently through WebSocketConn.Write never overlap on the connection.
func VerifC05WSWrite() {
	vapi.SetPreemptBound(vapi.Param("preempt", 2))
	ws, _ := c05WS(nil, nil)
	A := vapi.Bytes("A", 4)
	B := vapi.Bytes("B", 2)
	var nA, nB int
	var eA, eB error
	go func() { nA, eA = ws.Write(A) }()
	go func() { nB, eB = ws.Write(B) }()
	vapi.Quiesce()
	vapi.Assert(eA == nil && eB == nil && nA == 4 && nB == 2, "C05: both writes succeed and report the message length")
	vapi.Assert(!wsM.overlap, "C05: concurrent writers never have two messages in progress on the connection at once")
	vapi.Assert(len(wsM.written) == 2, "C05: one message per Write")
	for _, w := range wsM.written {
		if len(w) == 4 {
			vapi.Assert(vapi.BytesEq(w, A), "C05: message content unaltered")
		} else {
			vapi.Assert(vapi.BytesEq(w, B), "C05: message content unaltered")
		}
	}
	vapi.Reach("wswrite-end")
}
