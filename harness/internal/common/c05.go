package common

import (
	"io"

	"github.com/cbeuw/Cloak/internal/zzverif/vapi"
	"github.com/cbeuw/Cloak/internal/zzverif/vconn"
)

// VerifC05Read: one record read from a byte stream under every segmentation.
func VerifC05Read() {
	a, b := vconn.Pipe(false)
	_ = b
	a.Segment = true
	a.MaxChunks = vapi.Param("chunks", 3)
	bodyLen := vapi.Pick("bodylen", 4) // 0..3
	hdr := vapi.Bytes("hdr", 3)        // type, version: not interpreted by the reader
	body := vapi.Bytes("body", bodyLen)
	next := vapi.Bytes("next", 3) // first bytes of the following record
	stream := append(append(append([]byte{}, hdr...), byte(bodyLen>>8), byte(bodyLen)), body...)
	cut := vapi.Pick("cut", 2) // 0: full record + following bytes; 1: stream ends inside the record
	tls := NewTLSConn(a)
	buf := make([]byte, 8)
	if cut == 0 {
		a.Feed(append(stream, next...))
		n, err := tls.Read(buf)
		vapi.Assert(err == nil, "C05: a complete record is delivered without error")
		vapi.Assert(n == bodyLen, "C05: one Read returns exactly the record body")
		vapi.Assert(vapi.BytesEq(buf[:n], body), "C05: body delivered whole and unaltered")
		vapi.Assert(a.Pending() == 3, "C05: exactly header+body consumed; the following record is left in the stream")
		vapi.Reach("read-full")
	} else {
		k := vapi.Pick("keep", len(stream)) // 0..len-1 bytes arrive, then EOF
		a.Feed(stream[:k])
		a.FeedEOF()
		n, err := tls.Read(buf)
		vapi.Assert(err != nil, "C05: a record cut short by EOF is an error, never a short success")
		_ = n
		vapi.Reach("read-cut")
	}
}

// VerifC05Seq: several messages written through TLSConn, re-segmented arbitrarily, come back one per Read in order.
func VerifC05Seq() {
	a, b := vconn.Pipe(false)
	b.Segment = true
	b.MaxChunks = vapi.Param("chunks", 3)
	vapi.PoolMode(2) // the write-buffer pool may or may not hand back a used buffer
	w := NewTLSConn(a)
	r := NewTLSConn(b)
	nmsg := 2 + vapi.Pick("nmsg", 2)
	msgs := make([][]byte, nmsg)
	names := []string{"m0", "m1", "m2"}
	for i := range msgs {
		msgs[i] = vapi.Bytes(names[i], vapi.Pick("len", 3))
		n, err := w.Write(msgs[i])
		vapi.Assert(err == nil && n == len(msgs[i]), "C05: write accepted")
		vapi.Assert(len(a.Writes) == i+1, "C05: header and body leave in a single write on the underlying connection")
		wr := a.Writes[i]
		vapi.Assert(len(wr) == 5+len(msgs[i]), "C05: record is header+body")
		vapi.Assert(wr[0] == 23 && wr[1] == 3 && wr[2] == 3, "C05: application-data record header")
		vapi.Assert(int(wr[3])<<8|int(wr[4]) == len(msgs[i]), "C05: big-endian length field")
	}
	buf := make([]byte, 8)
	for i := range msgs {
		n, err := r.Read(buf)
		vapi.Assert(err == nil, "C05: read ok")
		vapi.Assert(n == len(msgs[i]), "C05: message boundary preserved")
		vapi.Assert(vapi.BytesEq(buf[:n], msgs[i]), "C05: message delivered whole, unaltered, in order")
	}
	vapi.Assert(b.Pending() == 0, "C05: nothing left over")
	vapi.Reach("seq-end")
}

// VerifC05WriteFail: a failed write on the underlying connection does not poison later writes.
func VerifC05WriteFail() {
	a, b := vconn.Pipe(false)
	a.FailWrite = 1 + vapi.Pick("failat", 2)
	w := NewTLSConn(a)
	r := NewTLSConn(b)
	var sent [][]byte
	names := []string{"m0", "m1", "m2"}
	for i := 0; i < 3; i++ {
		m := vapi.Bytes(names[i], 1+vapi.Pick("len", 2))
		_, err := w.Write(m)
		if err == nil {
			sent = append(sent, m)
		}
	}
	vapi.Assert(len(sent) == 2, "C05: exactly the injected write fails")
	buf := make([]byte, 16)
	for i := range sent {
		n, err := r.Read(buf)
		vapi.Assert(err == nil && n == len(sent[i]), "C05: messages accepted after a failed write arrive whole")
		vapi.Assert(vapi.BytesEq(buf[:n], sent[i]), "C05: ... and unaltered")
	}
	vapi.Assert(b.Pending() == 0, "C05: nothing else was put on the wire")
	vapi.Reach("writefail-end")
}

// VerifC05ReadLen: all declared lengths 0..65535 against the 20480-byte receive buffer, stream long enough or not.
func VerifC05ReadLen() {
	c := &vconn.LenConn{MaxShort: vapi.Param("short", 3), EOF: true}
	c.Avail = vapi.Range("avail", 0, 70000)
	avail := c.Avail
	tls := NewTLSConn(c)
	buf := vapi.AbstractBytes("buf", 20480)
	var n int
	var err error
	panicked := vapi.Catch(func() { n, err = tls.Read(buf) })
	vapi.Assert(!panicked, "C05: Read never panics")
	if err == nil {
		vapi.Assert(avail >= 5+n, "C05: success only if the stream held header and body")
		vapi.Assert(c.Consumed == 5+n, "C05: exactly header+body consumed")
		vapi.Assert(n <= 20480, "C05: never more than the buffer")
		vapi.Reach("readlen-ok")
	} else {
		vapi.Reach("readlen-err")
	}
}

// VerifC05Oversize: a record larger than the reader's buffer is an error, never delivered truncated.
func VerifC05Oversize() {
	a, _ := vconn.Pipe(false)
	a.Segment = true
	bufSize := 6 + vapi.Pick("bufsize", 3) // 6..8
	declared := vapi.Range("declared", 0, 65535)
	hdr := []byte{23, 3, 3, byte(declared >> 8), byte(declared)}
	a.Feed(append(hdr, vapi.Bytes("junk", 12)...))
	a.FeedEOF()
	tls := NewTLSConn(a)
	buf := make([]byte, bufSize)
	n, err := tls.Read(buf)
	if declared > bufSize {
		vapi.Assert(err != nil, "C05: record larger than the reader's buffer is reported as an error")
		vapi.Assert(n == 0, "C05: ... and nothing is delivered")
		vapi.Reach("oversize")
	} else {
		vapi.Assert(err == nil && n == declared, "C05: a record that fits exactly is delivered")
		vapi.Reach("fits")
	}
}

// VerifC05WriteLen: every message length 0..17000: one write, correct header, or an error and no write.
func VerifC05WriteLen() {
	c := &vconn.LenConn{}
	tls := NewTLSConn(c)
	vapi.PoolMode(0)
	for round := 0; round < 2; round++ { // second round re-uses the pooled buffer
		n := vapi.Range("n", 0, 17000)
		m := vapi.AbstractBytes("m", 17000)[:n]
		before := len(c.WriteLen)
		ret, err := tls.Write(m)
		if err == nil {
			vapi.Assert(len(c.WriteLen) == before+1, "C05: exactly one write on the underlying connection")
			vapi.Assert(c.WriteLen[before] == 5+n, "C05: header+body length")
			w := c.WroteBuf[before]
			vapi.Assert(w[0] == 23 && w[1] == 3 && w[2] == 3, "C05: record type 23, version 3.3")
			vapi.Assert(int(w[3])<<8|int(w[4]) == n, "C05: 16-bit length field equals the message length")
			vapi.Assert(n <= 1<<14+256, "C10: record length at most 2^14+256")
			vapi.Assert(ret == n, "C05: reports the message length")
		} else {
			vapi.Assert(len(c.WriteLen) == before, "C05: a refused message writes nothing")
			vapi.Assert(n > 1<<14+256, "C05: only over-long messages are refused")
		}
	}
	vapi.Reach("writelen-end")
}

var _ = io.EOF
