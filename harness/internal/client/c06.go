package client

import (
	"crypto/aes"
	"crypto/cipher"
	"net"
	"time"

	"golang.org/x/crypto/curve25519"

	"github.com/cbeuw/Cloak/internal/common"
	"github.com/cbeuw/Cloak/internal/server"
	"github.com/cbeuw/Cloak/internal/server/usermanager"
	"github.com/cbeuw/Cloak/internal/zzverif/ref"
	"github.com/cbeuw/Cloak/internal/zzverif/vapi"
	"github.com/cbeuw/Cloak/internal/zzverif/vconn"
)

type c06Tape struct {
	name  string
	drawn []byte
}

func (t *c06Tape) Read(p []byte) (int, error) {
	b := vapi.Bytes(t.name, len(p))
	copy(p, b)
	t.drawn = append(t.drawn, b...)
	return len(p), nil
}

type c06Addr struct{}

func (c06Addr) Network() string { return "tcp" }
func (c06Addr) String() string  { return "127.0.0.1:8388" }

type c06Listener struct {
	conn  net.Conn
	given bool
	never chan struct{}
}

func (l *c06Listener) Accept() (net.Conn, error) {
	if !l.given {
		l.given = true
		return l.conn, nil
	}
	<-l.never
	return nil, vconn.ErrClosed
}
func (l *c06Listener) Close() error   { return nil }
func (l *c06Listener) Addr() net.Addr { return c06Addr{} }

type c06Dialer struct{ dialed int }

func (d *c06Dialer) Dial(network, address string) (net.Conn, error) {
	d.dialed++
	return nil, vconn.ErrClosed
}

var c06Sec, c06Nsec int64

// VerifC06Payload: the real client payload equals the reference construction for every identity / option value.
func VerifC06Payload() {
	var pub [32]byte
	var spv [32]byte
	copy(spv[:], vapi.Bytes("staticPv", 32))
	curve25519.ScalarBaseMult(&pub, &spv)
	uid := vapi.Bytes("uid", 16)
	mlen := 1 + vapi.Pick("mlen", 12)
	method := vapi.Bytes("method", mlen)
	enc := vapi.U8("enc")
	sid := vapi.U32("sid")
	un := vapi.Bool("unordered")
	now := vapi.I64("now")
	vapi.Assume(now >= 0)
	vapi.Assume(now < 1<<40)
	tape := &c06Tape{name: "ephPriv"}
	auth := AuthInfo{UID: uid, SessionId: sid, ProxyMethod: string(method), EncryptionMethod: enc, Unordered: un, ServerPubKey: &pub,
		WorldState: common.WorldState{Rand: tape, Now: func() time.Time { return time.Unix(now, 0) }}}
	got, secret := makeAuthenticationPayload(auth)
	// reference
	var priv, epub [32]byte
	copy(priv[:], tape.drawn[:32])
	priv[0] &= 248
	priv[31] &= 127
	priv[31] |= 64
	curve25519.ScalarBaseMult(&epub, &priv)
	ss, err := curve25519.X25519(priv[:], pub[:])
	vapi.Assume(err == nil)
	pt := ref.Plaintext(uid, method, enc, now, sid, un)
	blk, _ := aes.NewCipher(ss)
	gcm, _ := cipher.NewGCM(blk)
	ct := gcm.Seal(nil, epub[:12], pt, nil)
	vapi.Assert(vapi.BytesEq(got.randPubKey[:], epub[:]), "C06: the first 32 bytes carry the ephemeral X25519 public key")
	vapi.Assert(vapi.BytesEq(secret[:], ss), "C06: shared secret = X25519(ephemeral private, server static public)")
	vapi.Assert(vapi.BytesEq(got.ciphertextWithTag[:], ct), "C06: 64-byte block = AES-GCM(shared secret, nonce = first 12 bytes of the ephemeral key, reference plaintext layout)")
	vapi.Reach("payload-end")
}

// VerifC06Direct: real client DirectTLS.Handshake against the real server (server.Serve -> dispatchConnection)
// over an in-memory connection, with the ClientHello taken from the natively generated uTLS templates.
func VerifC06Direct() {
	vapi.SleepBlocks(true)
	vapi.EagerOffsets(true)
	vapi.DetSched(true) // one client, one server: no schedule nondeterminism is needed
	tpl := vTemplates[vapi.Pick("template", len(vTemplates))]
	vapi.Redirect("github.com/cbeuw/Cloak/internal/client.buildClientHello", func(b browser, f clientHelloFields) ([]byte, error) {
		// placement model of uTLS: the three 32-byte fields are copied obliviously into the hello
		h := append([]byte{}, tpl.raw...)
		copy(h[tpl.offR:], f.random)
		copy(h[tpl.offS:], f.sessionId)
		copy(h[tpl.offK:], f.x25519KeyShare)
		return h, nil
	})
	var pub, spv [32]byte
	copy(spv[:], vapi.Bytes("staticPv", 32))
	curve25519.ScalarBaseMult(&pub, &spv)
	uid := vapi.Bytes("uid", 16)
	S := vapi.I64("serverNow")
	vapi.Assume(S >= 1000)
	vapi.Assume(S < 1<<40)
	off := vapi.I64("clockOffset")
	vapi.Assume(off > -180)
	vapi.Assume(off < 180)
	serverTape := &c06Tape{name: "serverTape"}
	sta := &server.State{
		BypassUID:   map[[16]byte]struct{}{},
		UsedRandom:  map[[32]byte]int64{},
		StaticPv:    &spv,
		WorldState:  common.WorldState{Rand: serverTape, Now: func() time.Time { return time.Unix(S, 0) }},
		ProxyBook:   map[string]net.Addr{"shadowsocks": c06Addr{}},
		ProxyDialer: &c06Dialer{},
		RedirDialer: &c06Dialer{},
		RedirHost:   c06Addr{},
		RedirPort:   "443",
	}
	var k [16]byte
	copy(k[:], uid)
	sta.BypassUID[k] = struct{}{}
	sta.Panel = server.MakeUserPanel(&usermanager.Voidmanager{})
	encs := []byte{0, 1, 2, 3}
	auth := AuthInfo{UID: uid, SessionId: vapi.U32("sid"), ProxyMethod: "shadowsocks", EncryptionMethod: encs[vapi.Pick("enc", 4)], Unordered: vapi.Bool("unordered"),
		ServerPubKey: &pub, MockDomain: tpl.name,
		WorldState: common.WorldState{Rand: &c06Tape{name: "ephPriv"}, Now: func() time.Time { return time.Unix(S+off, 0) }}}
	cc, sc := vconn.Pipe(false)
	go server.Serve(&c06Listener{conn: sc, never: make(chan struct{})}, sta)
	d := &DirectTLS{browser: tpl.browser}
	var key [32]byte
	var err error
	done := false
	go func() { key, err = d.Handshake(cc, auth); done = true }()
	vapi.Quiesce()
	vapi.Assert(done, "C06: the handshake completes")
	vapi.Assert(err == nil, "C06: a correctly configured client within the clock window is accepted")
	vapi.Assert(len(serverTape.drawn) >= 32 && vapi.BytesEq(key[:], serverTape.drawn[:32]), "C06: both ends end up with the same 32-byte session key (the one the server drew)")
	vapi.Assert(sta.RedirDialer.(*c06Dialer).dialed == 0, "C06: the connection is not handed to the redirect target")
	// the first flight is one handshake record wrapping the hello
	first := cc.Writes[0]
	vapi.Assert(first[0] == 22 && first[1] == 3 && first[2] == 1 && int(first[3])<<8|int(first[4]) == len(first)-5, "C10: the client's first flight is a single TLS handshake record")
	vapi.Reach("direct-end")
}
