package client

import (
	"net"
	"time"

	mux "github.com/cbeuw/Cloak/internal/multiplex"
	"github.com/cbeuw/Cloak/internal/zzverif/vapi"
	"github.com/cbeuw/Cloak/internal/zzverif/vconn"
)

// pListener hands the queued local connections to RouteTCP, then blocks for ever (no more proxy clients).
type pListener struct {
	conns []net.Conn
	park  chan struct{}
}

func (l *pListener) Accept() (net.Conn, error) {
	if len(l.conns) == 0 {
		<-l.park
	}
	c := l.conns[0]
	l.conns = l.conns[1:]
	return c, nil
}
func (l *pListener) Close() error   { return nil }
func (l *pListener) Addr() net.Addr { return vconn.Addr{} }

func pReadN(c net.Conn, want int) []byte {
	buf := make([]byte, want+4)
	got := 0
	for got < want {
		n, err := c.Read(buf[got:])
		got += n
		if err != nil {
			break
		}
	}
	return buf[:got]
}

// VerifC01Piper: the client-side relay (RouteTCP) with two proxy clients connecting at the same time: each tunnel
// stream carries exactly the bytes of one local connection - first packet and what follows - and the replies come back
// on the connection they belong to, under every interleaving of the two relays within the preemption bound.
func VerifC01Piper() {
	vapi.RandZero(true)
	vapi.DetSched(true)
	vapi.SetPreemptBound(vapi.Param("preempt", 1))
	var key [32]byte
	copy(key[:], vapi.Bytes("key", 32))
	oc, _ := mux.MakeObfuscator(0, key)
	os, _ := mux.MakeObfuscator(0, key)
	cs := mux.MakeSession(3, mux.SessionConfig{Obfuscator: oc, MsgOnWireSizeLimit: 14 + 255 + 8})
	ss := mux.MakeSession(3, mux.SessionConfig{Obfuscator: os, MsgOnWireSizeLimit: 14 + 255 + 8})
	ca, cb := vconn.Pipe(true)
	cs.AddConnection(ca)
	ss.AddConnection(cb)

	A, B := vapi.Bytes("A", 3), vapi.Bytes("B", 3)
	A2, B2 := vapi.Bytes("A2", 2), vapi.Bytes("B2", 2)
	RA, RB := vapi.Bytes("RA", 2), vapi.Bytes("RB", 2)
	vapi.Assume(A[0] != B[0])
	appA, locA := vconn.Pipe(false)
	appB, locB := vconn.Pipe(false)
	l := &pListener{conns: []net.Conn{locA, locB}, park: make(chan struct{})}

	var got [2][]byte
	var more [2][]byte
	var repA, repB []byte
	done := 0
	// the server side of the tunnel: accept both streams, read the first packet, answer, read what follows
	for i := 0; i < 2; i++ {
		i := i
		go func() {
			c, err := ss.Accept()
			if err != nil {
				return
			}
			got[i] = pReadN(c, 3)
			if len(got[i]) == 3 && got[i][0] == A[0] {
				c.Write(RA)
			} else {
				c.Write(RB)
			}
			more[i] = pReadN(c, 2)
			done++
		}()
	}
	// the two proxy clients
	go func() { appA.Write(A); repA = pReadN(appA, 2); appA.Write(A2) }()
	go func() { appB.Write(B); repB = pReadN(appB, 2); appB.Write(B2) }()
	go RouteTCP(l, 300*time.Second, false, func() *mux.Session { return cs })
	vapi.Quiesce()
	vapi.Assert(done == 2, "C01: both tunnels carry their first packet and what follows")
	for i := 0; i < 2; i++ {
		isA := vapi.BytesEq(got[i], A)
		isB := vapi.BytesEq(got[i], B)
		vapi.Assert(vapi.Or(isA, isB), "C01: a stream's first packet is the first packet of one local connection, uncorrupted")
		if len(got[i]) == 3 && got[i][0] == A[0] {
			vapi.Assert(vapi.BytesEq(more[i], A2), "C01: later bytes of a local connection travel on the same stream as its first packet")
		} else {
			vapi.Assert(vapi.BytesEq(more[i], B2), "C01: later bytes of a local connection travel on the same stream as its first packet")
		}
	}
	vapi.Assert(len(got[0]) == 3 && len(got[1]) == 3 && got[0][0] != got[1][0], "C01: the two local connections are carried by two different streams (nothing taken from another stream)")
	vapi.Assert(vapi.BytesEq(repA, RA) && vapi.BytesEq(repB, RB), "C01: replies come back on the local connection they belong to")
	vapi.Assert(locA.ReadDeadline.IsZero() && locB.ReadDeadline.IsZero(), "C01: the first-packet read deadline is cleared once the first packet has arrived (an armed deadline would cut a healthy long-lived connection)")
	vapi.Assert(!locA.Closed && !locB.Closed && !cs.IsClosed() && !ss.IsClosed(), "C01: while everything is healthy and nobody closes, the relay keeps working")
	vapi.Reach("piper-end")
}
