package client

import (
	"strings"
	"time"

	"github.com/cbeuw/Cloak/internal/common"
	"github.com/cbeuw/Cloak/internal/zzverif/vapi"
	"github.com/cbeuw/Cloak/internal/zzverif/vconn"
	"golang.org/x/crypto/curve25519"
)

// VerifC10Name: which server name the direct-mode handshake asks the ClientHello builder to carry: the configured
// name verbatim, or - when the configured name is the keyword "random" in any letter case (README) - a freshly
// generated name of the documented shape, never the keyword itself.
func VerifC10Name() {
	vapi.RandZero(true)
	names := []string{"www.bing.com", "random", "Random", "RANDOM", "rAnDoM", "randomx", "random.com"}
	cfg := names[vapi.Pick("name", len(names))]
	var captured []string
	vapi.Redirect("github.com/cbeuw/Cloak/internal/client.buildClientHello", func(b browser, f clientHelloFields) ([]byte, error) {
		captured = append(captured, f.serverName)
		vapi.Assert(len(f.random) == 32 && len(f.sessionId) == 32 && len(f.x25519KeyShare) == 32, "C10: 32-byte random, session id and key share handed to the ClientHello builder")
		return make([]byte, 64), nil
	})
	var pub, spv [32]byte
	copy(spv[:], vapi.Bytes("staticPv", 32))
	curve25519.ScalarBaseMult(&pub, &spv) // an honest server key
	auth := AuthInfo{UID: vapi.Bytes("uid", 16), SessionId: 1, ProxyMethod: "shadowsocks", ServerPubKey: &pub, MockDomain: cfg,
		WorldState: common.WorldState{Rand: &c06Tape{name: "ephPriv"}, Now: func() time.Time { return time.Unix(1700000000, 0) }}}
	cc, sc := vconn.Pipe(false)
	sc.Close() // the server side is not the subject: the handshake fails after the hello has been written
	d := &DirectTLS{browser: chrome}
	d.Handshake(cc, auth)
	vapi.Assert(len(captured) == 1, "C10: exactly one ClientHello is built")
	if len(captured) == 1 {
		got := captured[0]
		if strings.EqualFold(cfg, "random") {
			vapi.Assert(!strings.EqualFold(got, "random"), "C10: the keyword random (any case) is replaced by a generated server name")
			dot := strings.LastIndex(got, ".")
			vapi.Assert(dot >= 3 && dot < len(got)-1, "C10: generated server name has the shape label.tld")
		} else {
			vapi.Assert(got == cfg, "C10: the ClientHello carries the configured server name")
		}
	}
	if len(cc.Writes) > 0 {
		w := cc.Writes[0]
		vapi.Assert(len(w) == 5+64 && w[0] == 0x16 && w[1] == 3 && int(w[3])<<8|int(w[4]) == 64, "C10: the first flight is a single handshake record around the ClientHello")
	}
	vapi.Reach("name-end")
}

// VerifC10Conc: two direct-mode handshakes at the same time (a session with NumConn > 1 dials its connections in
// parallel): each connection's first flight is one well-formed handshake record holding exactly the ClientHello
// built for that connection, whatever buffers the record composition recycles.
func VerifC10Conc() {
	vapi.RandZero(true)
	vapi.SetPreemptBound(vapi.Param("preempt", 1))
	vapi.PoolMode(vapi.Pick("pool", 2)) // recycled objects: last returned / fresh
	var built [][]byte
	vapi.Redirect("github.com/cbeuw/Cloak/internal/client.buildClientHello", func(b browser, f clientHelloFields) ([]byte, error) {
		h := append([]byte{byte(len(f.serverName))}, []byte(f.serverName)...)
		h = append(h, f.random...)
		h = append(h, f.sessionId...)
		built = append(built, h)
		return h, nil
	})
	var pub, spv [32]byte
	copy(spv[:], vapi.Bytes("staticPv", 32))
	curve25519.ScalarBaseMult(&pub, &spv)
	names := []string{"a.com", "a-much-longer-name.example.org"}
	conns := make([]*vconn.Conn, 2)
	for i := 0; i < 2; i++ {
		i := i
		cc, _ := vconn.Pipe(false)
		conns[i] = cc
		auth := AuthInfo{UID: vapi.Bytes("uid", 16), SessionId: 1, ProxyMethod: "shadowsocks", ServerPubKey: &pub, MockDomain: names[i],
			WorldState: common.WorldState{Rand: &c06Tape{name: "ephPriv"}, Now: func() time.Time { return time.Unix(1700000000, 0) }}}
		go func() { (&DirectTLS{browser: chrome}).Handshake(cc, auth) }()
	}
	vapi.Quiesce()
	for i := 0; i < 2; i++ {
		vapi.Assert(len(conns[i].Writes) == 1, "C10: the first flight is a single write")
		if len(conns[i].Writes) != 1 {
			continue
		}
		w := conns[i].Writes[0]
		vapi.Assert(len(w) >= 6 && w[0] == 0x16 && w[1] == 3 && int(w[3])<<8|int(w[4]) == len(w)-5, "C10: the first flight is a single handshake record whose length field matches the bytes sent")
		if len(w) >= 6 {
			nl := int(w[5])
			vapi.Assert(6+nl <= len(w) && string(w[6:6+nl]) == names[i], "C10: the ClientHello on a connection carries that connection's server name")
			mine := false
			for _, h := range built {
				if len(h) == len(w)-5 && vapi.BytesEq(h, w[5:]) {
					mine = true
				}
			}
			vapi.Assert(mine, "C10: the record holds exactly one of the ClientHellos that were built, unaltered")
		}
	}
	vapi.Reach("c10conc-end")
}
