package client

import (
	"strings"
	"time"

	"github.com/cbeuw/Cloak/internal/common"
	"github.com/cbeuw/Cloak/internal/zzverif/vapi"
	"github.com/cbeuw/Cloak/internal/zzverif/vconn"
	"golang.org/x/crypto/curve25519"
)

// VerifC10Name: which server name the direct-mode handshake asks the ClientHello builder to carry: the configured
// name verbatim, or - when the configured name is the keyword "random" in any letter case (README) - a freshly
// generated name of the documented shape, never the keyword itself.
func VerifC10Name() {
	vapi.RandZero(true)
	names := []string{"www.bing.com", "random", "Random", "RANDOM", "rAnDoM", "randomx", "random.com"}
	cfg := names[vapi.Pick("name", len(names))]
	var captured []string
	vapi.Redirect("github.com/cbeuw/Cloak/internal/client.buildClientHello", func(b browser, f clientHelloFields) ([]byte, error) {
		captured = append(captured, f.serverName)
		vapi.Assert(len(f.random) == 32 && len(f.sessionId) == 32 && len(f.x25519KeyShare) == 32, "C10: 32-byte random, session id and key share handed to the ClientHello builder")
		return make([]byte, 64), nil
	})
	var pub, spv [32]byte
	copy(spv[:], vapi.Bytes("staticPv", 32))
	curve25519.ScalarBaseMult(&pub, &spv) // an honest server key
	auth := AuthInfo{UID: vapi.Bytes("uid", 16), SessionId: 1, ProxyMethod: "shadowsocks", ServerPubKey: &pub, MockDomain: cfg,
		WorldState: common.WorldState{Rand: &c06Tape{name: "ephPriv"}, Now: func() time.Time { return time.Unix(1700000000, 0) }}}
	cc, sc := vconn.Pipe(false)
	sc.Close() // the server side is not the subject: the handshake fails after the hello has been written
	d := &DirectTLS{browser: chrome}
	d.Handshake(cc, auth)
	vapi.Assert(len(captured) == 1, "C10: exactly one ClientHello is built")
	if len(captured) == 1 {
		got := captured[0]
		if strings.EqualFold(cfg, "random") {
			vapi.Assert(!strings.EqualFold(got, "random"), "C10: the keyword random (any case) is replaced by a generated server name")
			dot := strings.LastIndex(got, ".")
			vapi.Assert(dot >= 3 && dot < len(got)-1, "C10: generated server name has the shape label.tld")
		} else {
			vapi.Assert(got == cfg, "C10: the ClientHello carries the configured server name")
		}
	}
	if len(cc.Writes) > 0 {
		w := cc.Writes[0]
		vapi.Assert(len(w) == 5+64 && w[0] == 0x16 && w[1] == 3 && int(w[3])<<8|int(w[4]) == 64, "C10: the first flight is a single handshake record around the ClientHello")
	}
	vapi.Reach("name-end")
}
