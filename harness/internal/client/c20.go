package client

import (
	"time"

	"github.com/cbeuw/Cloak/internal/common"
	mux "github.com/cbeuw/Cloak/internal/multiplex"
	"github.com/cbeuw/Cloak/internal/zzverif/vapi"
)

func c20Base() *RawConfig {
	return &RawConfig{
		ServerName:       "www.bing.com",
		ProxyMethod:      "shadowsocks",
		EncryptionMethod: "plain",
		UID:              []byte("0123456789abcdef"),
		PublicKey:        make([]byte, 32),
		NumConn:          4,
		LocalHost:        "127.0.0.1",
		LocalPort:        "1984",
		RemoteHost:       "203.0.113.5",
		RemotePort:       "443",
	}
}

// VerifC20Proc: the processed configuration against a table transcribed from README.md ("### Client").
func VerifC20Proc() { c20Proc(0) }

// VerifC20Transport: transport / browser / CDN options.
func VerifC20Transport() { c20Proc(1) }

// VerifC20Alt: AlternativeNames shapes.
func VerifC20Alt() { c20Proc(2) }

// c20Proc varies one group of options at a time (part 0: integers, UDP, encryption method; 1: transport,
// browser, CDN options; 2: alternative names); the other groups stay at a fixed choice.
func c20Proc(part int) {
	raw := c20Base()
	// README: "NumConn ... Setting it to 0 will disable connection multiplexing" ; code comment/state.go: <= 0
	if part != 0 {
		raw.NumConn, raw.KeepAlive, raw.StreamTimeout = 4, 0, 0
	} else {
		raw.NumConn = vapi.Int("NumConn")
	}
	// README: "KeepAlive is the number of seconds ... Zero or negative value disables it."
	if part == 0 {
		raw.KeepAlive = vapi.Int("KeepAlive")
	}
	vapi.Assume(raw.KeepAlive < 1<<31)
	vapi.Assume(raw.KeepAlive > -(1 << 31))
	// README: "StreamTimeout is the number of seconds ..." ; default 300 from example_config/ckclient.json and the in-code comment
	if part == 0 {
		raw.StreamTimeout = vapi.Int("StreamTimeout")
	}
	vapi.Assume(raw.StreamTimeout < 1<<31)
	vapi.Assume(raw.StreamTimeout > -(1 << 31))
	if part == 0 {
		raw.UDP = vapi.Bool("UDP")
	}
	encNames := []string{"plain", "aes-256-gcm", "aes-gcm", "aes-128-gcm", "chacha20-poly1305", "AES-GCM", "ChaCha20-Poly1305", "Plain", "rot13", ""}
	encWant := []int{mux.EncryptionMethodPlain, mux.EncryptionMethodAES256GCM, mux.EncryptionMethodAES256GCM, mux.EncryptionMethodAES128GCM, mux.EncryptionMethodChaha20Poly1305,
		mux.EncryptionMethodAES256GCM, mux.EncryptionMethodChaha20Poly1305, mux.EncryptionMethodPlain, -1, -1}
	ei := 0
	if part == 0 {
		ei = vapi.Pick("enc", len(encNames))
	}
	raw.EncryptionMethod = encNames[ei]
	trNames := []string{"direct", "CDN", "cdn", "Direct", ""}
	trCDN := []bool{false, true, true, false, false}
	ti := 0
	if part == 1 {
		ti = vapi.Pick("transport", len(trNames))
	}
	raw.Transport = trNames[ti]
	brNames := []string{"chrome", "firefox", "safari", "Firefox", "SAFARI", "", "opera"}
	brWant := []browser{chrome, firefox, safari, firefox, safari, chrome, chrome}
	bi := 0
	if part == 1 {
		bi = vapi.Pick("browser", len(brNames))
	}
	raw.BrowserSig = brNames[bi]
	origins := []string{"", "origin.example.com"}
	oi := 0
	if part == 1 {
		oi = vapi.Pick("origin", 2)
	}
	raw.CDNOriginHost = origins[oi]
	paths := []string{"", "/ws", "/a/b", "/cloak/", "/a//b", "/a/../b", "/"}
	pi := 0
	if part == 1 {
		pi = vapi.Pick("path", len(paths))
	}
	raw.CDNWsUrlPath = paths[pi]
	altShapes := [][]string{nil, {"cloudflare.com", "github.com"}, {"", "github.com"}, {"cloudflare.com", "", "", "github.com"}, {"", ""}}
	altWant := [][]string{{}, {"cloudflare.com", "github.com"}, {"github.com"}, {"cloudflare.com", "github.com"}, {}}
	ai := 1
	if part == 2 {
		ai = vapi.Pick("alt", len(altShapes))
	}
	raw.AlternativeNames = append([]string{}, altShapes[ai]...)
	// proxy method and server name are opaque strings (the server's ProxyBook keys are case-sensitive): passed through verbatim
	methods := []string{"shadowsocks", "OpenVPN", "Tor-X_1", "SHADOWSOCKS"}
	names := []string{"www.bing.com", "WWW.Example.COM"}
	mi, ni := 0, 0
	if part == 2 {
		mi = vapi.Pick("method", len(methods))
		ni = vapi.Pick("servername", len(names))
	}
	raw.ProxyMethod = methods[mi]
	raw.ServerName = names[ni]

	numConn, keepAlive, streamTimeout, udp := raw.NumConn, raw.KeepAlive, raw.StreamTimeout, raw.UDP
	var local LocalConnConfig
	var remote RemoteConnConfig
	var auth AuthInfo
	var err error
	panicked := vapi.Catch(func() { local, remote, auth, err = raw.ProcessRawConfig(common.WorldState{}) })
	vapi.Assert(!panicked, "C20: configuration processing never crashes")
	if encWant[ei] < 0 {
		vapi.Assert(err != nil, "C20: an unknown encryption method is rejected with an error")
		vapi.Reach("proc-badenc")
		return
	}
	vapi.Assert(err == nil, "C20: a complete configuration is accepted")
	vapi.Assert(int(auth.EncryptionMethod) == encWant[ei], "C20: encryption-method names map as documented (case-insensitively, aes-gcm = aes-256-gcm)")
	if numConn <= 0 {
		vapi.Assert(remote.Singleplex && remote.NumConn == 1, "C20: NumConn <= 0 selects one-connection-per-stream mode")
	} else {
		vapi.Assert(!remote.Singleplex && remote.NumConn == numConn, "C20: a positive NumConn is the number of connections")
	}
	if keepAlive <= 0 {
		vapi.Assert(remote.KeepAlive < 0, "C20: zero or negative KeepAlive disables keep-alive")
	} else {
		vapi.Assert(remote.KeepAlive == time.Duration(keepAlive)*time.Second, "C20: a positive KeepAlive of N seconds yields an N-second keep-alive period")
	}
	if streamTimeout == 0 {
		vapi.Assert(local.Timeout == 300*time.Second, "C20: StreamTimeout defaults to 300 seconds")
	} else {
		vapi.Assert(local.Timeout == time.Duration(streamTimeout)*time.Second, "C20: StreamTimeout is in seconds")
	}
	vapi.Assert(auth.Unordered == udp, "C20: UDP selects unordered mode")
	vapi.Assert(auth.ProxyMethod == methods[mi] && auth.MockDomain == names[ni], "C20: proxy method and server name passed through verbatim")
	vapi.Assert(remote.RemoteAddr == "203.0.113.5:443" && local.LocalAddr == "127.0.0.1:1984", "C20: addresses composed from host and port")
	if trCDN[ti] {
		host := "203.0.113.5"
		if origins[oi] != "" {
			host = origins[oi]
		}
		path := paths[pi]
		if path == "" {
			path = "/"
		}
		vapi.Assert(remote.Transport.mode == "cdn", "C20: Transport CDN (any case) selects the CDN transport")
		vapi.Assert(remote.Transport.wsUrl == "ws://"+host+":443"+path, "C20: CDN URL = ws://(CDNOriginHost or remote host):port + CDNWsUrlPath (default /)")
	} else {
		vapi.Assert(remote.Transport.mode == "direct", "C20: direct is the default transport")
		vapi.Assert(remote.Transport.browser == brWant[bi], "C20: BrowserSig chrome/firefox/safari (any case), default chrome")
	}
	want := append(append([]string{}, altWant[ai]...), names[ni])
	vapi.Assert(len(local.MockDomainList) == len(want), "C20: mock-domain list = non-empty AlternativeNames + ServerName")
	for i := range want {
		if i < len(local.MockDomainList) {
			vapi.Assert(local.MockDomainList[i] == want[i], "C20: mock-domain list content (empty alternative names dropped)")
		}
	}
	vapi.Reach("proc-end")
}

// VerifC20Missing: each mandatory field missing => error, never a panic.
func VerifC20Missing() {
	raw := c20Base()
	switch vapi.Pick("missing", 9) {
	case 0:
		raw.ServerName = ""
	case 1:
		raw.ProxyMethod = ""
	case 2:
		raw.UID = nil
	case 3:
		raw.PublicKey = nil
	case 4:
		raw.PublicKey = make([]byte, 31)
	case 5:
		raw.RemoteHost = ""
	case 6:
		raw.RemotePort = ""
	case 7:
		raw.LocalHost = ""
	case 8:
		raw.LocalPort = ""
	}
	var err error
	panicked := vapi.Catch(func() { _, _, _, err = raw.ProcessRawConfig(common.WorldState{}) })
	vapi.Assert(!panicked, "C20: an incomplete configuration never crashes")
	vapi.Assert(err != nil, "C20: an incomplete configuration is rejected with an error")
	vapi.Reach("missing-end")
}

// VerifC20Ssv: the option-string front end produces the JSON text of the same configuration, including the
// "\=" escapes that plugin hosts put into base64 values.
func VerifC20Ssv() {
	vals := []string{"QUJD", "QUI=", "QQ==", "=", "a=b=c"}
	v := vals[vapi.Pick("uid", len(vals))]
	w := vals[vapi.Pick("pk", len(vals))]
	esc := func(s string) string {
		out := ""
		for i := 0; i < len(s); i++ {
			if s[i] == '=' || s[i] == ';' || s[i] == '\\' {
				out += "\\"
			}
			out += string(s[i])
		}
		return out
	}
	ssv := "UID=" + esc(v) + ";PublicKey=" + esc(w) + ";NumConn=4;UDP=true;ServerName=www.bing.com;AlternativeNames=a.com,b.com;StreamTimeout=300"
	if vapi.Pick("trailing", 2) == 1 {
		ssv += ";"
	}
	got := string(ssvToJson(ssv))
	want := `{"UID":"` + v + `","PublicKey":"` + w + `","NumConn":4,"UDP":true,"ServerName":"www.bing.com","AlternativeNames":["a.com","b.com"],"StreamTimeout":300}`
	vapi.Assert(got == want, "C20: key=value options translate to the JSON text of the same configuration")
	vapi.Reach("ssv-end")
}
