package client

import (
	"net"
	"time"

	mux "github.com/cbeuw/Cloak/internal/multiplex"
	"github.com/cbeuw/Cloak/internal/zzverif/vapi"
	"github.com/cbeuw/Cloak/internal/zzverif/vconn"
)

// ---- model of the local UDP socket RouteUDP reads from / writes to (engine redirects of *net.UDPConn methods) ----

type uAddr struct{ s string }

func (a uAddr) Network() string { return "udp" }
func (a uAddr) String() string  { return a.s }

type uDatagram struct {
	addr net.Addr
	data []byte
}

type uSock struct {
	in   []uDatagram // datagrams the proxy clients send, in arrival order
	out  []uDatagram // datagrams RouteUDP sent back
	park chan struct{}
}

var uS *uSock

// ReadFrom returns one whole datagram per call (truncated to the buffer, as a UDP socket does), then blocks.
func uReadFrom(c *net.UDPConn, b []byte) (int, net.Addr, error) {
	if len(uS.in) == 0 {
		<-uS.park
	}
	d := uS.in[0]
	uS.in = uS.in[1:]
	n := copy(b, d.data)
	return n, d.addr, nil
}

func uWriteTo(c *net.UDPConn, b []byte, addr net.Addr) (int, error) {
	uS.out = append(uS.out, uDatagram{addr: addr, data: append([]byte{}, b...)})
	return len(b), nil
}

// VerifC14RouteUDP: the client-side UDP relay: datagrams of two proxy clients (distinguished by source address) are
// carried on two streams, one datagram per message, whole and unmixed, in order per client; replies are sent back as
// whole datagrams to the address they belong to.
func VerifC14RouteUDP() {
	vapi.RandZero(true)
	vapi.DetSched(true)
	vapi.SetPreemptBound(vapi.Param("preempt", 1))
	vapi.Redirect("(*net.UDPConn).ReadFrom", uReadFrom)
	vapi.Redirect("(*net.UDPConn).WriteTo", uWriteTo)
	var key [32]byte
	copy(key[:], vapi.Bytes("key", 32))
	oc, _ := mux.MakeObfuscator(0, key)
	os, _ := mux.MakeObfuscator(0, key)
	cs := mux.MakeSession(3, mux.SessionConfig{Obfuscator: oc, Unordered: true, MsgOnWireSizeLimit: 14 + 255 + 8})
	ss := mux.MakeSession(3, mux.SessionConfig{Obfuscator: os, Unordered: true, MsgOnWireSizeLimit: 14 + 255 + 8})
	ca, cb := vconn.Pipe(true)
	cs.AddConnection(ca)
	ss.AddConnection(cb)

	X, Y := uAddr{"10.0.0.1:5000"}, uAddr{"10.0.0.2:6000"}
	d1, d2, d3 := vapi.Bytes("d1", 3), vapi.Bytes("d2", 2), vapi.Bytes("d3", 1)
	r1, r2 := vapi.Bytes("r1", 2), vapi.Bytes("r2", 3)
	vapi.Assume(d1[0] != d2[0])
	uS = &uSock{in: []uDatagram{{X, d1}, {Y, d2}, {X, d3}}, park: make(chan struct{})}

	var first, second [2][]byte
	var nsecond [2]int
	done := 0
	for i := 0; i < 2; i++ {
		i := i
		go func() {
			c, err := ss.Accept()
			if err != nil {
				return
			}
			buf := make([]byte, 8)
			n, _ := c.Read(buf)
			first[i] = append([]byte{}, buf[:n]...)
			if n == 3 && buf[0] == d1[0] {
				c.Write(r1)
				// the X client sends a second datagram
				n, _ = c.Read(buf)
				second[i] = append([]byte{}, buf[:n]...)
				nsecond[i] = 1
			} else {
				c.Write(r2)
			}
			done++
		}()
	}
	go RouteUDP(func() (*net.UDPConn, error) { return new(net.UDPConn), nil }, 300*time.Second, false, func() *mux.Session { return cs })
	vapi.Quiesce()
	vapi.Assert(done == 2, "C14: both clients' datagrams reach the server on two streams")
	nX, nY := 0, 0
	for i := 0; i < 2; i++ {
		if vapi.BytesEq(first[i], d1) {
			nX++
			vapi.Assert(nsecond[i] == 1 && vapi.BytesEq(second[i], d3), "C14: a client's later datagram travels on the same stream, whole, after the earlier one")
		} else {
			vapi.Assert(vapi.BytesEq(first[i], d2), "C14: each message is exactly one datagram of one client (never merged, split or mixed)")
			nY++
		}
	}
	vapi.Assert(nX == 1 && nY == 1, "C14: one stream per client address")
	vapi.Assert(len(uS.out) == 2, "C14: each reply is sent back as exactly one datagram")
	for _, o := range uS.out {
		if o.addr.String() == X.s {
			vapi.Assert(vapi.BytesEq(o.data, r1), "C14: the reply on a client's stream goes to that client's address, whole")
		} else {
			vapi.Assert(o.addr.String() == Y.s && vapi.BytesEq(o.data, r2), "C14: the reply on a client's stream goes to that client's address, whole")
		}
	}
	vapi.Reach("routeudp-end")
}
