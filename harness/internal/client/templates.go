package client

// Placeholder so that the package's other harnesses (C20) load without the C06 pre-step. bin/vcheck replaces this
// file, in a private copy of the harness tree, with the templates generated natively from the current source
// (gen/client_templates_test.go.txt) before any C06 run.

type vTemplate struct {
	browser browser
	name    string
	raw     []byte

	offR, offS, offK int
}

var vTemplates = []vTemplate{}
