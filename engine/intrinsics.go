package main

// Intrinsics: sync, atomic, time, rand, fmt/errors/log stubs, bytealg, native pass-through of pure string helpers.

import (
	"encoding/base64"
	"fmt"
	"go/types"
	"math"
	"net"
	"strconv"
	"strings"

	"golang.org/x/tools/go/ssa"
)

type intrinsic func(p *Path, caller *frame, fn *ssa.Function, args []value) value

var intrinsics = map[string]intrinsic{}
var pkgIntrinsics = map[string]func(p *Path, caller *frame, fn *ssa.Function, args []value) (value, bool){}

func structOf(p *Path, ptr value) structure {
	c := p.cellOf(ptr)
	if c == nil {
		panic(p.rtPanic("invalid memory address or nil pointer dereference"))
	}
	return (*c).(structure)
}

func (p *Path) atomicAdd(args []value) value {
	p.schedPoint("atomic")
	c := p.cellOf(args[0])
	if c == nil {
		panic(p.rtPanic("invalid memory address or nil pointer dereference"))
	}
	n := p.tt.Bin(OpAdd, (*c).(*Term), args[1].(*Term))
	*c = n
	return n
}

func (p *Path) atomicLoad(args []value) value {
	p.schedPoint("atomic")
	return p.load(args[0])
}

func (p *Path) atomicStore(args []value) value {
	p.schedPoint("atomic")
	p.store(args[0], args[1])
	return nil
}

func (p *Path) atomicSwap(args []value) value {
	p.schedPoint("atomic")
	old := p.load(args[0])
	p.store(args[0], args[1])
	return old
}

func (p *Path) atomicCAS(args []value) value {
	p.schedPoint("atomic")
	old := p.load(args[0])
	var eq *Term
	switch o := old.(type) {
	case *Term:
		eq = p.tt.Eq(o, args[1].(*Term))
	default:
		eq = p.equals(nil, old, args[1])
	}
	if p.branch(eq) {
		p.store(args[0], args[2])
		return p.tt.Bool(true)
	}
	return p.tt.Bool(false)
}

func noop(p *Path, caller *frame, fn *ssa.Function, args []value) value {
	return p.zeroResults(fn)
}

func init() {
	I := intrinsics

	// ---- sync.Mutex / RWMutex ----
	I["(*sync.Mutex).Lock"] = func(p *Path, c *frame, fn *ssa.Function, a []value) value { p.mutexLock(p.cellOf(a[0])); return nil }
	I["(*sync.Mutex).Unlock"] = func(p *Path, c *frame, fn *ssa.Function, a []value) value { p.mutexUnlock(p.cellOf(a[0])); return nil }
	I["(*sync.Mutex).TryLock"] = func(p *Path, c *frame, fn *ssa.Function, a []value) value {
		return p.tt.Bool(p.mutexTryLock(p.cellOf(a[0])))
	}
	I["(*sync.RWMutex).Lock"] = I["(*sync.Mutex).Lock"]
	I["(*sync.RWMutex).Unlock"] = I["(*sync.Mutex).Unlock"]
	I["(*sync.RWMutex).RLock"] = func(p *Path, c *frame, fn *ssa.Function, a []value) value { p.rLock(p.cellOf(a[0])); return nil }
	I["(*sync.RWMutex).RUnlock"] = func(p *Path, c *frame, fn *ssa.Function, a []value) value { p.rUnlock(p.cellOf(a[0])); return nil }

	// ---- sync.Cond ---- (struct fields: noCopy, L, notify, checker)
	condL := func(p *Path, cptr value) iface {
		s := structOf(p, cptr)
		return s[1].(iface)
	}
	callL := func(p *Path, caller *frame, l iface, name string) {
		f := p.eng.prog.LookupMethod(l.t, nil, name)
		if f == nil {
			panic(p.unsupported("Locker method " + name + " on " + l.t.String()))
		}
		p.call(caller, f, []value{l.v})
	}
	I["(*sync.Cond).Wait"] = func(p *Path, c *frame, fn *ssa.Function, a []value) value {
		cell := p.cellOf(a[0])
		cs := p.condOf(cell)
		l := condL(p, a[0])
		me := p.cur
		cs.waiters = append(cs.waiters, me)
		callL(p, c, l, "Unlock")
		for {
			still := false
			for _, w := range cs.waiters {
				if w == me {
					still = true
				}
			}
			if !still {
				break
			}
			p.block(cs, "Cond.Wait")
		}
		callL(p, c, l, "Lock")
		return nil
	}
	I["(*sync.Cond).Broadcast"] = func(p *Path, c *frame, fn *ssa.Function, a []value) value {
		cs := p.condOf(p.cellOf(a[0]))
		cs.waiters = nil
		p.wake(cs)
		return nil
	}
	I["(*sync.Cond).Signal"] = func(p *Path, c *frame, fn *ssa.Function, a []value) value {
		cs := p.condOf(p.cellOf(a[0]))
		if len(cs.waiters) > 0 {
			cs.waiters = cs.waiters[1:]
		}
		p.wake(cs)
		return nil
	}

	// ---- sync.WaitGroup ----
	I["(*sync.WaitGroup).Add"] = func(p *Path, c *frame, fn *ssa.Function, a []value) value {
		cell := p.cellOf(a[0])
		n, _ := concInt(a[1])
		p.wgs[cell] += int(n)
		if p.wgs[cell] == 0 {
			p.wake(cell)
		}
		return nil
	}
	I["(*sync.WaitGroup).Done"] = func(p *Path, c *frame, fn *ssa.Function, a []value) value {
		cell := p.cellOf(a[0])
		p.wgs[cell]--
		if p.wgs[cell] == 0 {
			p.wake(cell)
		}
		return nil
	}
	I["(*sync.WaitGroup).Wait"] = func(p *Path, c *frame, fn *ssa.Function, a []value) value {
		cell := p.cellOf(a[0])
		p.schedPoint("wg.Wait")
		for p.wgs[cell] > 0 {
			p.block(cell, "WaitGroup.Wait")
		}
		return nil
	}

	// ---- sync.Pool ---- (fields: noCopy, local, localSize, victim, victimSize, New)
	I["(*sync.Pool).Get"] = func(p *Path, c *frame, fn *ssa.Function, a []value) value {
		cell := p.cellOf(a[0])
		items := p.pools[cell]
		useOld := false
		if len(items) > 0 {
			switch p.poolMode {
			case 0:
				useOld = true
			case 1:
				useOld = false
			case 2:
				useOld = p.decideCtl(2) == 0
			}
		}
		if useOld {
			it := items[len(items)-1]
			p.pools[cell] = items[:len(items)-1]
			return it
		}
		s := (*cell).(structure)
		newFn := s[len(s)-1]
		if newFn == nil {
			return iface{}
		}
		return p.call(c, newFn, nil)
	}
	I["(*sync.Pool).Put"] = func(p *Path, c *frame, fn *ssa.Function, a []value) value {
		cell := p.cellOf(a[0])
		if it, ok := a[1].(iface); ok && it.t == nil && it.v == nil {
			return nil
		}
		p.pools[cell] = append(p.pools[cell], a[1])
		return nil
	}

	// ---- sync.Map ----
	smap := func(p *Path, a value) *mapV {
		cell := p.cellOf(a)
		m, ok := p.syncMaps[cell]
		if !ok {
			m = &mapV{kt: types.NewInterfaceType(nil, nil), vt: types.NewInterfaceType(nil, nil)}
			p.syncMaps[cell] = m
		}
		return m
	}
	I["(*sync.Map).Load"] = func(p *Path, c *frame, fn *ssa.Function, a []value) value {
		p.schedPoint("sync.Map")
		m := smap(p, a[0])
		if i := p.mapFind(m, a[1]); i >= 0 {
			return tuple{m.vals[i], p.tt.Bool(true)}
		}
		return tuple{iface{}, p.tt.Bool(false)}
	}
	I["(*sync.Map).Store"] = func(p *Path, c *frame, fn *ssa.Function, a []value) value {
		p.schedPoint("sync.Map")
		p.mapSet(smap(p, a[0]), a[1], a[2])
		return nil
	}
	I["(*sync.Map).Delete"] = func(p *Path, c *frame, fn *ssa.Function, a []value) value {
		p.schedPoint("sync.Map")
		p.mapDelete(smap(p, a[0]), a[1])
		return nil
	}
	I["(*sync.Map).LoadOrStore"] = func(p *Path, c *frame, fn *ssa.Function, a []value) value {
		p.schedPoint("sync.Map")
		m := smap(p, a[0])
		if i := p.mapFind(m, a[1]); i >= 0 {
			return tuple{m.vals[i], p.tt.Bool(true)}
		}
		p.mapSet(m, a[1], a[2])
		return tuple{a[2], p.tt.Bool(false)}
	}
	I["(*sync.Map).Range"] = func(p *Path, c *frame, fn *ssa.Function, a []value) value {
		p.schedPoint("sync.Map")
		m := smap(p, a[0])
		n := len(m.keys)
		for i := 0; i < n; i++ {
			if !m.alive[i] {
				continue
			}
			r := p.call(c, a[1], []value{m.keys[i], m.vals[i]})
			if !p.branch(r.(*Term)) {
				break
			}
		}
		return nil
	}

	// ---- sync/atomic ----
	for _, ty := range []string{"Int32", "Int64", "Uint32", "Uint64", "Uintptr"} {
		I["sync/atomic.Add"+ty] = func(p *Path, c *frame, fn *ssa.Function, a []value) value { return p.atomicAdd(a) }
		I["sync/atomic.Load"+ty] = func(p *Path, c *frame, fn *ssa.Function, a []value) value { return p.atomicLoad(a) }
		I["sync/atomic.Store"+ty] = func(p *Path, c *frame, fn *ssa.Function, a []value) value { return p.atomicStore(a) }
		I["sync/atomic.Swap"+ty] = func(p *Path, c *frame, fn *ssa.Function, a []value) value { return p.atomicSwap(a) }
		I["sync/atomic.CompareAndSwap"+ty] = func(p *Path, c *frame, fn *ssa.Function, a []value) value { return p.atomicCAS(a) }
		I["sync/atomic.And"+ty] = func(p *Path, c *frame, fn *ssa.Function, a []value) value {
			p.schedPoint("atomic")
			old := p.load(a[0]).(*Term)
			p.store(a[0], p.tt.Bin(OpAnd, old, a[1].(*Term)))
			return old
		}
		I["sync/atomic.Or"+ty] = func(p *Path, c *frame, fn *ssa.Function, a []value) value {
			p.schedPoint("atomic")
			old := p.load(a[0]).(*Term)
			p.store(a[0], p.tt.Bin(OpOr, old, a[1].(*Term)))
			return old
		}
	}
	I["sync/atomic.LoadPointer"] = func(p *Path, c *frame, fn *ssa.Function, a []value) value { return p.atomicLoad(a) }
	I["sync/atomic.StorePointer"] = func(p *Path, c *frame, fn *ssa.Function, a []value) value { return p.atomicStore(a) }
	// atomic.Value: struct{ v any }
	I["(*sync/atomic.Value).Load"] = func(p *Path, c *frame, fn *ssa.Function, a []value) value {
		p.schedPoint("atomic")
		return structOf(p, a[0])[0]
	}
	I["(*sync/atomic.Value).Store"] = func(p *Path, c *frame, fn *ssa.Function, a []value) value {
		p.schedPoint("atomic")
		v := a[1].(iface)
		if v.t == nil {
			panic(targetPanic{iface{t: types.Typ[types.String], v: "sync/atomic: store of nil value into Value"}})
		}
		structOf(p, a[0])[0] = v
		return nil
	}

	// ---- time ----
	I["time.Now"] = func(p *Path, c *frame, fn *ssa.Function, a []value) value { return p.timeNow() }
	I["time.runtimeNano"] = func(p *Path, c *frame, fn *ssa.Function, a []value) value { return p.i64(1) }
	I["time.now"] = func(p *Path, c *frame, fn *ssa.Function, a []value) value {
		return tuple{p.i64(1735689600), p.tt.Const(32, 0), p.clock}
	}
	I["time.Sleep"] = func(p *Path, c *frame, fn *ssa.Function, a []value) value {
		d := a[0].(*Term)
		p.sleepLog = append(p.sleepLog, d)
		pos := p.tt.Cmp(OpSlt, p.i64(0), d)
		if p.timedSleep && len(p.threads) > 1 {
			// discrete-event virtual clock: the sleeper wakes at exactly now+d, when it is the earliest sleeper
			// and nothing else can run; time passes only in the scheduler
			if !p.branch(pos) {
				return nil
			}
			me := p.cur
			me.wakeAt = p.tt.Bin(OpAdd, p.clock, d)
			me.sleeping = true
			for me.sleeping {
				p.block(sleepTok, "time.Sleep")
			}
			return nil
		}
		p.clock = p.tt.Ite(pos, p.tt.Bin(OpAdd, p.clock, d), p.clock)
		if p.sleepHook != nil {
			p.sleepHook()
		}
		if p.sleepBlocks && len(p.threads) > 1 {
			// the sleeper stays parked until the harness calls vapi.WakeSleepers()
			me := p.cur
			me.sleeping = true
			for me.sleeping {
				p.block(sleepTok, "time.Sleep")
			}
			return nil
		}
		p.schedPoint("Sleep")
		return nil
	}
	I["time.AfterFunc"] = func(p *Path, c *frame, fn *ssa.Function, a []value) value {
		tr := &timerRec{fn: a[1], dur: a[0].(*Term)}
		p.timers = append(p.timers, tr)
		// *time.Timer: represent as a pointer to a cell holding a structure whose first field is the record index
		cell := new(value)
		*cell = structure{p.i64(int64(len(p.timers) - 1))}
		p.timerCells[cell] = tr
		return cell
	}
	I["(*time.Timer).Stop"] = func(p *Path, c *frame, fn *ssa.Function, a []value) value {
		cell := p.cellOf(a[0])
		tr := p.timerCells[cell]
		if tr == nil {
			return p.tt.Bool(false)
		}
		was := !tr.stopped && !tr.fired
		tr.stopped = true
		return p.tt.Bool(was)
	}

	// ---- net/http, gorilla: not executed (DESIGN section 3.2) ----
	I["net/http.ReadRequest"] = func(p *Path, c *frame, fn *ssa.Function, a []value) value {
		// the HTTP parser is outside the encoder: the request is treated as unparseable
		p.res.Reached["stub:http.ReadRequest"] = true
		return tuple{(*value)(nil), iface{v: &errModel{msg: "http: request not parsed (stub)"}}}
	}
	I["net/http.Serve"] = func(p *Path, c *frame, fn *ssa.Function, a []value) value {
		p.res.Reached["stub:http.Serve"] = true
		p.httpServeCalls++
		return iface{v: &errModel{msg: "http.Serve (stub)"}}
	}
	// name resolution is outside the encoder: an empty address is returned, no error
	I["net.ResolveIPAddr"] = func(p *Path, c *frame, fn *ssa.Function, a []value) value {
		p.res.Reached["stub:net.ResolveIPAddr"] = true
		cell := new(value)
		*cell = p.zero(deref(fn.Signature.Results().At(0).Type()))
		return tuple{cell, iface{}}
	}
	I["github.com/cbeuw/Cloak/internal/server/usermanager.APIRouterOf"] = func(p *Path, c *frame, fn *ssa.Function, a []value) value {
		return (*value)(nil)
	}

	// ---- runtime odds and ends ----
	I["runtime.SetFinalizer"] = noop
	I["runtime.KeepAlive"] = noop
	I["runtime.Gosched"] = func(p *Path, c *frame, fn *ssa.Function, a []value) value { p.schedPoint("Gosched"); return nil }
	I["internal/godebug.(*Setting).Value"] = func(p *Path, c *frame, fn *ssa.Function, a []value) value { return "" }
	I["internal/godebug.New"] = func(p *Path, c *frame, fn *ssa.Function, a []value) value { return (*value)(nil) }

	// bytes.Index as a whole (its fast paths end in assembly and CPU-feature dependent cut-overs): first position
	// at which every byte of the pattern matches, forking per candidate position like IndexByte
	I["bytes.Index"] = func(p *Path, c *frame, fn *ssa.Function, a []value) value {
		s := p.elems(a[0].(*sliceV), "bytes.Index")
		pat := p.elems(a[1].(*sliceV), "bytes.Index pattern")
		for i := 0; i+len(pat) <= len(s); i++ {
			m := p.tt.tru
			for j := range pat {
				m = p.tt.BAnd(m, p.tt.Eq(s[i+j].(*Term), pat[j].(*Term)))
			}
			if p.branch(m) {
				return p.i64(int64(i))
			}
		}
		return p.i64(-1)
	}

	// ---- bytealg ----
	I["internal/bytealg.IndexByte"] = func(p *Path, c *frame, fn *ssa.Function, a []value) value {
		return p.indexByte(p.elems(a[0].(*sliceV), "IndexByte"), a[1].(*Term))
	}
	I["internal/bytealg.IndexByteString"] = func(p *Path, c *frame, fn *ssa.Function, a []value) value {
		return p.indexByte(p.strBytes(a[0]), a[1].(*Term))
	}
	I["internal/bytealg.Equal"] = func(p *Path, c *frame, fn *ssa.Function, a []value) value {
		x := p.elems(a[0].(*sliceV), "Equal")
		y := p.elems(a[1].(*sliceV), "Equal")
		if len(x) != len(y) {
			return p.tt.Bool(false)
		}
		r := p.tt.tru
		for i := range x {
			r = p.tt.BAnd(r, p.tt.Eq(x[i].(*Term), y[i].(*Term)))
		}
		return r
	}
	I["bytes.Equal"] = I["internal/bytealg.Equal"]
	I["internal/bytealg.Count"] = func(p *Path, c *frame, fn *ssa.Function, a []value) value {
		n := 0
		for _, e := range p.elems(a[0].(*sliceV), "Count") {
			if p.branch(p.tt.Eq(e.(*Term), a[1].(*Term))) {
				n++
			}
		}
		return p.i64(int64(n))
	}
	I["internal/bytealg.CountString"] = func(p *Path, c *frame, fn *ssa.Function, a []value) value {
		n := 0
		for _, e := range p.strBytes(a[0]) {
			if p.branch(p.tt.Eq(e.(*Term), a[1].(*Term))) {
				n++
			}
		}
		return p.i64(int64(n))
	}

	// ---- errors / fmt ----
	I["errors.Is"] = func(p *Path, c *frame, fn *ssa.Function, a []value) value {
		return p.tt.Bool(p.errorsIs(c, a[0].(iface), a[1].(iface), 0))
	}
	I["fmt.Errorf"] = func(p *Path, c *frame, fn *ssa.Function, a []value) value {
		format, _ := a[0].(string)
		em := &errModel{msg: p.sprintf(format, a[1])}
		if strings.Contains(format, "%w") {
			for _, e := range p.elemsOrNil(a[1]) {
				if it, ok := e.(iface); ok && (it.t != nil || it.v != nil) && p.isError(it) {
					em.wrapped = append(em.wrapped, it)
				}
			}
		}
		return iface{v: em}
	}
	I["fmt.Sprintf"] = func(p *Path, c *frame, fn *ssa.Function, a []value) value {
		format, _ := a[0].(string)
		return p.sprintf(format, a[1])
	}
	I["fmt.Sprint"] = func(p *Path, c *frame, fn *ssa.Function, a []value) value { return p.sprintf("", a[0]) }
	I["fmt.Sprintln"] = func(p *Path, c *frame, fn *ssa.Function, a []value) value { return p.sprintf("", a[0]) + "\n" }
	for _, n := range []string{"fmt.Println", "fmt.Printf", "fmt.Print", "fmt.Fprintf", "fmt.Fprintln", "fmt.Fprint"} {
		I[n] = noop
	}
	for _, n := range []string{"log.Println", "log.Printf", "log.Print"} {
		I[n] = noop
	}
	for _, n := range []string{"log.Fatal", "log.Fatalf", "log.Fatalln", "log.Panic", "log.Panicf"} {
		I[n] = func(p *Path, c *frame, fn *ssa.Function, a []value) value {
			p.fatal("log." + fn.Name())
			return nil
		}
	}

	pkgIntrinsics["github.com/sirupsen/logrus"] = func(p *Path, c *frame, fn *ssa.Function, a []value) (value, bool) {
		n := fn.Name()
		if strings.HasPrefix(n, "Fatal") || strings.HasPrefix(n, "Panic") {
			p.fatal("logrus." + n)
		}
		return p.zeroResults(fn), true
	}

	// ---- time.Time.Add on virtual-clock instants ----
	// Times made by the engine's time.Now carry the monotonic reading in ext and a frozen wall part. Adding a
	// symbolic duration through the real code would drag d/1e9 and d%1e9 into branch conditions (wall part),
	// which only matter for calendar output. Here only the monotonic part advances; the wall part stays frozen
	// (stated stub: virtual clock = monotonic clock).
	pkgIntrinsics["time"] = func(p *Path, c *frame, fn *ssa.Function, a []value) (value, bool) {
		if fn.String() != "(time.Time).Add" {
			return nil, false
		}
		t, ok := a[0].(structure)
		if !ok || len(t) != 3 {
			return nil, false
		}
		wall, ok := t[0].(*Term)
		d, ok2 := a[1].(*Term)
		if !ok || !ok2 || !wall.isConst() || wall.val&(1<<63) == 0 || d.isConst() {
			return nil, false
		}
		ext := t[1].(*Term)
		te := p.tt.Bin(OpAdd, ext, d)
		// saturate instead of degrading to wall-only on overflow (unreachable within the harness bounds)
		return structure{wall, te, t[2]}, true
	}

	// ---- math on concrete floats ----
	pkgIntrinsics["math"] = func(p *Path, c *frame, fn *ssa.Function, a []value) (value, bool) {
		f := func(i int) float64 { x, _ := a[i].(float64); return x }
		switch fn.Name() {
		case "Abs":
			return math.Abs(f(0)), true
		case "Floor":
			return math.Floor(f(0)), true
		case "Ceil":
			return math.Ceil(f(0)), true
		case "Trunc":
			return math.Trunc(f(0)), true
		case "Sqrt":
			return math.Sqrt(f(0)), true
		case "Max":
			return math.Max(f(0), f(1)), true
		case "Min":
			return math.Min(f(0), f(1)), true
		case "Mod":
			return math.Mod(f(0), f(1)), true
		case "Pow":
			return math.Pow(f(0), f(1)), true
		case "Log":
			return math.Log(f(0)), true
		case "Exp":
			return math.Exp(f(0)), true
		case "IsNaN":
			return p.tt.Bool(math.IsNaN(f(0))), true
		case "IsInf":
			s, _ := concInt(a[1])
			return p.tt.Bool(math.IsInf(f(0), int(s))), true
		case "Inf":
			s, _ := concInt(a[0])
			return math.Inf(int(s)), true
		case "NaN":
			return math.NaN(), true
		case "Float64bits":
			return p.tt.Const(64, math.Float64bits(f(0))), true
		case "Float64frombits":
			v, ok := conc(a[0])
			if !ok {
				panic(p.unsupported("Float64frombits of symbolic value"))
			}
			return math.Float64frombits(v), true
		}
		return nil, false
	}

	// ---- native pass-through for pure helpers on concrete arguments ----
	pkgIntrinsics["strings"] = nativeStrings
	pkgIntrinsics["strconv"] = nativeStrings
	pkgIntrinsics["net"] = nativeStrings
	pkgIntrinsics["encoding/base64"] = nativeStrings
}

func (p *Path) fatal(what string) {
	p.reportViolation("panic", "fatal exit via "+what, "", p.modelOrNil())
	panic(abortPath{kind: "stop", msg: "fatal"})
}

func (p *Path) isError(it iface) bool {
	switch it.v.(type) {
	case *errModel, *runtimeErr:
		return true
	}
	if it.t == nil {
		return false
	}
	errT := types.Universe.Lookup("error").Type().Underlying().(*types.Interface)
	return types.Implements(it.t, errT)
}

func (p *Path) elemsOrNil(v value) []value {
	s, ok := v.(*sliceV)
	if !ok || s.isNil() {
		return nil
	}
	return p.elems(s, "variadic args")
}

func (p *Path) errorsIs(c *frame, err, target iface, depth int) bool {
	if depth > 20 {
		return false
	}
	if err.t == nil && err.v == nil {
		return target.t == nil && target.v == nil
	}
	// comparable equality
	if err.v == target.v && (err.t == nil && target.t == nil || err.t != nil && target.t != nil && types.Identical(err.t, target.t)) {
		return true
	}
	switch e := err.v.(type) {
	case *errModel:
		for _, w := range e.wrapped {
			if p.errorsIs(c, w.(iface), target, depth+1) {
				return true
			}
		}
		return false
	case *runtimeErr:
		return false
	}
	if err.t != nil {
		if f := p.eng.prog.LookupMethod(err.t, nil, "Unwrap"); f != nil && f.Signature.Results().Len() == 1 {
			r := p.call(c, f, []value{err.v})
			if it, ok := r.(iface); ok {
				return p.errorsIs(c, it, target, depth+1)
			}
		}
	}
	return false
}

func (p *Path) indexByte(b []value, c *Term) value {
	for i, e := range b {
		if p.branch(p.tt.Eq(e.(*Term), c)) {
			return p.i64(int64(i))
		}
	}
	return p.i64(-1)
}

// sprintf: best-effort formatting of concrete values (used for log / error text only).
func (p *Path) sprintf(format string, variadic value) string {
	var goArgs []interface{}
	for _, e := range p.elemsOrNil(variadic) {
		goArgs = append(goArgs, p.toGo(e))
	}
	if format == "" {
		return fmt.Sprint(goArgs...)
	}
	format = strings.ReplaceAll(format, "%w", "%v")
	return fmt.Sprintf(format, goArgs...)
}

func (p *Path) toGo(v value) interface{} {
	switch x := v.(type) {
	case iface:
		if x.t == nil && x.v == nil {
			return nil
		}
		switch m := x.v.(type) {
		case *errModel:
			return m.msg
		case *runtimeErr:
			return "runtime error: " + m.msg
		case *Term:
			if m.isConst() {
				if w, signed, ok := widthOf(x.t); ok {
					if w == 0 {
						return m.val != 0
					}
					if signed {
						return sext64(m.val, w)
					}
					return m.val
				}
				return m.val
			}
			return "<sym>"
		case string:
			return m
		case *symStr:
			return "<symstr>"
		case float64:
			return m
		}
		if x.t != nil {
			return "<" + x.t.String() + ">"
		}
		return "<?>"
	case string:
		return x
	case *Term:
		if x.isConst() {
			return x.val
		}
		return "<sym>"
	}
	return fmt.Sprintf("<%T>", v)
}

// timeNow builds a time.Time{wall, ext, loc} with the monotonic bit set and ext = virtual clock.
func (p *Path) timeNow() value {
	const hasMonotonic = uint64(1) << 63
	// seconds since 1885 for 2025-01-01T00:00:00Z: unix 1735689600 + (1970-1885 offset 2682374400)
	sec := uint64(1735689600 + 2682374400)
	wall := hasMonotonic | sec<<30
	var loc value = (*value)(nil)
	if tp := p.eng.prog.ImportedPackage("time"); tp != nil {
		if g, ok := tp.Members["Local"].(*ssa.Global); ok {
			loc = p.load(p.globalAddr(g))
		}
	}
	return structure{p.tt.Const(64, wall), p.clock, loc}
}

// nativeStrings implements pure string helpers natively when all arguments are concrete.
func nativeStrings(p *Path, c *frame, fn *ssa.Function, a []value) (value, bool) {
	name := fn.String()
	str := func(i int) (string, bool) { s, ok := a[i].(string); return s, ok }
	strs := func(v value) ([]string, bool) {
		s, ok := v.(*sliceV)
		if !ok {
			return nil, false
		}
		var r []string
		for _, e := range p.elemsOrNil(s) {
			x, ok := e.(string)
			if !ok {
				return nil, false
			}
			r = append(r, x)
		}
		return r, true
	}
	mkStrs := func(ss []string) value {
		back := make([]value, len(ss))
		for i, s := range ss {
			back[i] = s
		}
		n := p.i64(int64(len(ss)))
		return &sliceV{back: back, off: p.i64(0), len: n, cap: n, nonNil: ss != nil}
	}
	mkBytes := func(b []byte) value {
		back := make([]value, len(b))
		for i, x := range b {
			back[i] = p.tt.Const(8, uint64(x))
		}
		n := p.i64(int64(len(b)))
		return &sliceV{back: back, off: p.i64(0), len: n, cap: n, nonNil: b != nil}
	}
	errVal := func(e error) value {
		if e == nil {
			return iface{}
		}
		return iface{v: &errModel{msg: e.Error()}}
	}
	switch name {
	case "strings.ToLower", "strings.ToUpper", "strings.TrimSpace":
		if s, ok := str(0); ok {
			switch name {
			case "strings.ToLower":
				return strings.ToLower(s), true
			case "strings.ToUpper":
				return strings.ToUpper(s), true
			}
			return strings.TrimSpace(s), true
		}
	case "strings.Split", "strings.SplitN":
		s, ok1 := str(0)
		sep, ok2 := str(1)
		if ok1 && ok2 {
			if name == "strings.Split" {
				return mkStrs(strings.Split(s, sep)), true
			}
			n, ok3 := concInt(a[2])
			if ok3 {
				return mkStrs(strings.SplitN(s, sep, int(n))), true
			}
		}
	case "strings.Replace":
		s, ok1 := str(0)
		o, ok2 := str(1)
		n, ok3 := str(2)
		k, ok4 := concInt(a[3])
		if ok1 && ok2 && ok3 && ok4 {
			return strings.Replace(s, o, n, int(k)), true
		}
	case "strings.ReplaceAll":
		s, ok1 := str(0)
		o, ok2 := str(1)
		n, ok3 := str(2)
		if ok1 && ok2 && ok3 {
			return strings.ReplaceAll(s, o, n), true
		}
	case "strings.Contains", "strings.HasPrefix", "strings.HasSuffix", "strings.EqualFold":
		s, ok1 := str(0)
		t, ok2 := str(1)
		if ok1 && ok2 {
			switch name {
			case "strings.Contains":
				return p.tt.Bool(strings.Contains(s, t)), true
			case "strings.HasPrefix":
				return p.tt.Bool(strings.HasPrefix(s, t)), true
			case "strings.HasSuffix":
				return p.tt.Bool(strings.HasSuffix(s, t)), true
			}
			return p.tt.Bool(strings.EqualFold(s, t)), true
		}
	case "strings.TrimSuffix", "strings.TrimPrefix", "strings.Trim", "strings.TrimLeft", "strings.TrimRight":
		s, ok1 := str(0)
		t, ok2 := str(1)
		if ok1 && ok2 {
			switch name {
			case "strings.TrimSuffix":
				return strings.TrimSuffix(s, t), true
			case "strings.TrimPrefix":
				return strings.TrimPrefix(s, t), true
			case "strings.Trim":
				return strings.Trim(s, t), true
			case "strings.TrimLeft":
				return strings.TrimLeft(s, t), true
			}
			return strings.TrimRight(s, t), true
		}
	case "strings.Index", "strings.LastIndex":
		s, ok1 := str(0)
		t, ok2 := str(1)
		if ok1 && ok2 {
			if name == "strings.Index" {
				return p.i64(int64(strings.Index(s, t))), true
			}
			return p.i64(int64(strings.LastIndex(s, t))), true
		}
	case "strings.Join":
		ss, ok1 := strs(a[0])
		sep, ok2 := str(1)
		if ok1 && ok2 {
			return strings.Join(ss, sep), true
		}
	case "strconv.Itoa":
		if n, ok := concInt(a[0]); ok {
			return strconv.Itoa(int(n)), true
		}
		return "<sym>", true
	case "strconv.Atoi":
		if s, ok := str(0); ok {
			n, err := strconv.Atoi(s)
			return tuple{p.i64(int64(n)), errVal(err)}, true
		}
	case "strconv.Quote":
		if s, ok := str(0); ok {
			return strconv.Quote(s), true
		}
	case "net.JoinHostPort":
		h, ok1 := str(0)
		pt, ok2 := str(1)
		if ok1 && ok2 {
			return net.JoinHostPort(h, pt), true
		}
	case "net.SplitHostPort":
		if s, ok := str(0); ok {
			h, pt, err := net.SplitHostPort(s)
			return tuple{h, pt, errVal(err)}, true
		}
	case "(*encoding/base64.Encoding).EncodeToString":
		// used for log fields only; content may be symbolic
		s := a[1].(*sliceV)
		allc := true
		var bs []byte
		for _, e := range p.elemsOrNil(s) {
			v, ok := conc(e)
			if !ok {
				allc = false
				break
			}
			bs = append(bs, byte(v))
		}
		if allc {
			enc := base64.StdEncoding
			return enc.EncodeToString(bs), true
		}
		return "<b64-sym>", true
	case "(*encoding/base64.Encoding).DecodeString":
		if s, ok := str(1); ok {
			// which encoding? compare receiver with the package globals
			enc := base64.StdEncoding
			if pk := fn.Package(); pk != nil {
				if g, ok := pk.Members["URLEncoding"].(*ssa.Global); ok {
					if p.load(p.globalAddr(g)) == a[0] {
						enc = base64.URLEncoding
					}
				}
			}
			b, err := enc.DecodeString(s)
			return tuple{mkBytes(b), errVal(err)}, true
		}
	}
	return nil, false
}
