package main

// Term DAG for SMT-LIB2 bit-vector / Bool / UF formulas, with a local simplifier.

import (
	"fmt"
	"math/bits"
	"strings"
)

type Op int

const (
	OpConst Op = iota // bv const (val) or bool const (val 0/1)
	OpVar
	OpAdd
	OpSub
	OpMul
	OpUDiv
	OpURem
	OpSDiv
	OpSRem
	OpAnd
	OpOr
	OpXor
	OpNot // bvnot or boolean not depending on sort
	OpNeg
	OpShl
	OpLshr
	OpAshr
	OpConcat
	OpExtract
	OpZext
	OpSext
	OpIte
	OpEq
	OpUlt
	OpUle
	OpSlt
	OpSle
	OpBAnd // boolean and
	OpBOr
	OpApply // uninterpreted function
)

// Term sort: w == 0 means Bool, otherwise (_ BitVec w).
type Term struct {
	op   Op
	w    int
	args []*Term
	val  uint64 // for OpConst with w <= 64
	name string // OpVar / OpApply
	hi   int    // OpExtract
	lo   int
	id   int
}

func (t *Term) isConst() bool { return t.op == OpConst }
func (t *Term) isBool() bool  { return t.w == 0 }

type ufDecl struct {
	name string
	args []int
	ret  int
}

type tkey struct {
	op         Op
	w, hi, lo  int
	val        uint64
	name       string
	a0, a1, a2 int
}

type TermTable struct {
	tab   map[tkey]*Term
	next  int
	vars  []*Term           // declared variables in order
	ufs   map[string]ufDecl // declared UFs
	ufOrd []string
	tru   *Term
	fls   *Term
}

func NewTermTable() *TermTable {
	tt := &TermTable{tab: map[tkey]*Term{}, ufs: map[string]ufDecl{}}
	tt.tru = tt.mk(&Term{op: OpConst, w: 0, val: 1})
	tt.fls = tt.mk(&Term{op: OpConst, w: 0, val: 0})
	return tt
}

func (tt *TermTable) key(t *Term) tkey {
	k := tkey{op: t.op, w: t.w, hi: t.hi, lo: t.lo, val: t.val, name: t.name}
	switch len(t.args) {
	case 0:
	case 1:
		k.a0 = t.args[0].id
	case 2:
		k.a0, k.a1 = t.args[0].id, t.args[1].id
	case 3:
		k.a0, k.a1, k.a2 = t.args[0].id, t.args[1].id, t.args[2].id
	default:
		var sb strings.Builder
		sb.WriteString(t.name)
		for _, a := range t.args {
			fmt.Fprintf(&sb, ",%d", a.id)
		}
		k.name = sb.String()
	}
	return k
}

func (tt *TermTable) mk(t *Term) *Term {
	k := tt.key(t)
	if e, ok := tt.tab[k]; ok {
		return e
	}
	tt.next++
	t.id = tt.next
	tt.tab[k] = t
	return t
}

func mask(w int) uint64 {
	if w >= 64 {
		return ^uint64(0)
	}
	return (uint64(1) << uint(w)) - 1
}

func (tt *TermTable) Const(w int, v uint64) *Term {
	if w == 0 {
		if v != 0 {
			return tt.tru
		}
		return tt.fls
	}
	if w > 64 {
		panic("Const wider than 64")
	}
	return tt.mk(&Term{op: OpConst, w: w, val: v & mask(w)})
}

func (tt *TermTable) Bool(b bool) *Term {
	if b {
		return tt.tru
	}
	return tt.fls
}

func (tt *TermTable) Var(name string, w int) *Term {
	t := &Term{op: OpVar, w: w, name: name}
	k := tt.key(t)
	if e, ok := tt.tab[k]; ok {
		return e
	}
	t = tt.mk(t)
	tt.vars = append(tt.vars, t)
	return t
}

func sext64(v uint64, w int) int64 {
	if w >= 64 {
		return int64(v)
	}
	sh := uint(64 - w)
	return int64(v<<sh) >> sh
}

// knownZeroMask returns a mask of bits known to be zero (w<=64 only).
func knownZero(t *Term) uint64 { return knownZeroD(t, 8) }

func knownZeroD(t *Term, d int) uint64 {
	if t.w > 64 || t.w == 0 || d == 0 {
		return 0
	}
	knownZero := func(x *Term) uint64 { return knownZeroD(x, d-1) }
	switch t.op {
	case OpConst:
		return ^t.val & mask(t.w)
	case OpZext:
		return (mask(t.w) &^ mask(t.args[0].w)) | knownZero(t.args[0])
	case OpAnd:
		return knownZero(t.args[0]) | knownZero(t.args[1])
	case OpOr, OpXor:
		return knownZero(t.args[0]) & knownZero(t.args[1])
	case OpConcat:
		lo := t.args[1]
		hi := t.args[0]
		if lo.w >= 64 {
			return 0
		}
		return (knownZero(hi) << uint(lo.w) & mask(t.w)) | knownZero(lo)
	case OpShl:
		if t.args[1].isConst() {
			s := t.args[1].val
			if s >= uint64(t.w) {
				return mask(t.w)
			}
			return ((knownZero(t.args[0]) << s) | mask(int(s))) & mask(t.w)
		}
	case OpLshr:
		if t.args[1].isConst() {
			s := t.args[1].val
			if s >= uint64(t.w) {
				return mask(t.w)
			}
			return ((knownZero(t.args[0]) >> s) | (mask(t.w) &^ (mask(t.w) >> s))) & mask(t.w)
		}
	case OpIte:
		return knownZero(t.args[1]) & knownZero(t.args[2])
	case OpExtract:
		if t.args[0].w <= 64 {
			return (knownZero(t.args[0]) >> uint(t.lo)) & mask(t.w)
		}
	}
	return 0
}

func (tt *TermTable) Bin(op Op, a, b *Term) *Term {
	if a.w != b.w {
		panic(fmt.Sprintf("Bin %d: width mismatch %d vs %d", op, a.w, b.w))
	}
	w := a.w
	if w <= 64 && a.isConst() && b.isConst() {
		x, y := a.val, b.val
		m := mask(w)
		switch op {
		case OpAdd:
			return tt.Const(w, x+y)
		case OpSub:
			return tt.Const(w, x-y)
		case OpMul:
			return tt.Const(w, x*y)
		case OpAnd:
			return tt.Const(w, x&y)
		case OpOr:
			return tt.Const(w, x|y)
		case OpXor:
			return tt.Const(w, x^y)
		case OpUDiv:
			if y == 0 {
				return tt.Const(w, m)
			}
			return tt.Const(w, x/y)
		case OpURem:
			if y == 0 {
				return tt.Const(w, x)
			}
			return tt.Const(w, x%y)
		case OpSDiv:
			sx, sy := sext64(x, w), sext64(y, w)
			if sy == 0 {
				if sx >= 0 {
					return tt.Const(w, m)
				}
				return tt.Const(w, 1)
			}
			if sy == -1 {
				return tt.Const(w, uint64(-sx))
			}
			return tt.Const(w, uint64(sx/sy))
		case OpSRem:
			sx, sy := sext64(x, w), sext64(y, w)
			if sy == 0 {
				return tt.Const(w, x)
			}
			if sy == -1 {
				return tt.Const(w, 0)
			}
			return tt.Const(w, uint64(sx%sy))
		case OpShl:
			if y >= uint64(w) {
				return tt.Const(w, 0)
			}
			return tt.Const(w, x<<y)
		case OpLshr:
			if y >= uint64(w) {
				return tt.Const(w, 0)
			}
			return tt.Const(w, x>>y)
		case OpAshr:
			sx := sext64(x, w)
			if y >= uint64(w) {
				y = uint64(w - 1)
			}
			return tt.Const(w, uint64(sx>>y))
		}
	}
	// identities
	switch op {
	case OpAdd:
		if a.isConst() && a.val == 0 && w <= 64 {
			return b
		}
		if b.isConst() && b.val == 0 && w <= 64 {
			return a
		}
		// (x + c1) + c2
		if b.isConst() && a.op == OpAdd && a.args[1].isConst() && w <= 64 {
			return tt.Bin(OpAdd, a.args[0], tt.Const(w, a.args[1].val+b.val))
		}
		if a.isConst() && !b.isConst() {
			return tt.Bin(OpAdd, b, a)
		}
	case OpSub:
		if b.isConst() && b.val == 0 && w <= 64 {
			return a
		}
		if a == b && w <= 64 {
			return tt.Const(w, 0)
		}
		if b.isConst() && w <= 64 {
			return tt.Bin(OpAdd, a, tt.Const(w, -b.val))
		}
	case OpMul:
		if w <= 64 {
			if a.isConst() && !b.isConst() {
				a, b = b, a
			}
			if b.isConst() {
				if b.val == 0 {
					return b
				}
				if b.val == 1 {
					return a
				}
			}
		}
	case OpAnd:
		if a == b {
			return a
		}
		if w <= 64 {
			if a.isConst() && !b.isConst() {
				a, b = b, a
			}
			if b.isConst() {
				if b.val == 0 {
					return b
				}
				if b.val == mask(w) {
					return a
				}
				kz := knownZero(a)
				if b.val&^kz == 0 {
					return tt.Const(w, 0)
				}
				// mask keeps all possibly-nonzero bits
				if (^b.val&mask(w))&^kz == 0 {
					return a
				}
			}
		}
	case OpOr:
		if a == b {
			return a
		}
		if w <= 64 {
			if a.isConst() && !b.isConst() {
				a, b = b, a
			}
			if b.isConst() {
				if b.val == 0 {
					return a
				}
				if b.val == mask(w) {
					return b
				}
			}
		}
	case OpXor:
		if a == b && w <= 64 {
			return tt.Const(w, 0)
		}
		if w <= 64 {
			if a.isConst() && !b.isConst() {
				a, b = b, a
			}
			if b.isConst() && b.val == 0 {
				return a
			}
			// (x ^ y) ^ y = x
			if a.op == OpXor {
				if a.args[1] == b {
					return a.args[0]
				}
				if a.args[0] == b {
					return a.args[1]
				}
				if b.isConst() && a.args[1].isConst() {
					return tt.Bin(OpXor, a.args[0], tt.Const(w, a.args[1].val^b.val))
				}
			}
			if b.op == OpXor {
				if b.args[1] == a {
					return b.args[0]
				}
				if b.args[0] == a {
					return b.args[1]
				}
			}
		}
	case OpShl, OpLshr, OpAshr:
		if b.isConst() && b.val == 0 && w <= 64 {
			return a
		}
		if a.isConst() && a.val == 0 && w <= 64 {
			return a
		}
		if op == OpLshr && b.isConst() && w <= 64 && b.val < uint64(w) {
			// lshr(x, c) == zext(extract(w-1, c, x))
			s := int(b.val)
			if s%8 == 0 {
				return tt.Zext(tt.Extract(a, w-1, s), w)
			}
		}
		if op == OpShl && b.isConst() && w <= 64 && b.val < uint64(w) {
			s := int(b.val)
			if s%8 == 0 && s > 0 {
				return tt.Concat(tt.Extract(a, w-1-s, 0), tt.Const(s, 0))
			}
		}
	case OpUDiv, OpSDiv:
		if b.isConst() && b.val == 1 && w <= 64 {
			return a
		}
		if op == OpUDiv && b.isConst() && w <= 64 && b.val != 0 && b.val&(b.val-1) == 0 {
			return tt.Bin(OpLshr, a, tt.Const(w, uint64(bits.TrailingZeros64(b.val))))
		}
	case OpURem, OpSRem:
		if b.isConst() && b.val == 1 && w <= 64 {
			return tt.Const(w, 0)
		}
		if op == OpURem && b.isConst() && w <= 64 && b.val != 0 && b.val&(b.val-1) == 0 {
			return tt.Bin(OpAnd, a, tt.Const(w, b.val-1))
		}
	}
	return tt.mk(&Term{op: op, w: w, args: []*Term{a, b}})
}

func (tt *TermTable) Not(a *Term) *Term {
	if a.isBool() {
		if a.isConst() {
			return tt.Bool(a.val == 0)
		}
		if a.op == OpNot {
			return a.args[0]
		}
		return tt.mk(&Term{op: OpNot, w: 0, args: []*Term{a}})
	}
	if a.isConst() && a.w <= 64 {
		return tt.Const(a.w, ^a.val)
	}
	if a.op == OpNot {
		return a.args[0]
	}
	return tt.mk(&Term{op: OpNot, w: a.w, args: []*Term{a}})
}

func (tt *TermTable) Neg(a *Term) *Term {
	if a.isConst() && a.w <= 64 {
		return tt.Const(a.w, -a.val)
	}
	return tt.mk(&Term{op: OpNeg, w: a.w, args: []*Term{a}})
}

func (tt *TermTable) Concat(hi, lo *Term) *Term {
	w := hi.w + lo.w
	if hi.isConst() && lo.isConst() && w <= 64 {
		return tt.Const(w, hi.val<<uint(lo.w)|lo.val)
	}
	if hi.isConst() && hi.val == 0 && hi.w <= 64 {
		return tt.Zext(lo, w)
	}
	// concat(extract(x,h,m+1), extract(x,m,l)) = extract(x,h,l)
	if hi.op == OpExtract && lo.op == OpExtract && hi.args[0] == lo.args[0] && hi.lo == lo.hi+1 {
		return tt.Extract(hi.args[0], hi.hi, lo.lo)
	}
	return tt.mk(&Term{op: OpConcat, w: w, args: []*Term{hi, lo}})
}

func (tt *TermTable) ConcatN(parts ...*Term) *Term { // parts[0] most significant
	r := parts[0]
	for _, p := range parts[1:] {
		r = tt.Concat(r, p)
	}
	return r
}

func (tt *TermTable) Extract(a *Term, hi, lo int) *Term {
	w := hi - lo + 1
	if w <= 0 || hi >= a.w || lo < 0 {
		panic(fmt.Sprintf("bad extract [%d:%d] of width %d", hi, lo, a.w))
	}
	if w == a.w {
		return a
	}
	if a.isConst() && a.w <= 64 {
		return tt.Const(w, a.val>>uint(lo))
	}
	switch a.op {
	case OpExtract:
		return tt.Extract(a.args[0], a.lo+hi, a.lo+lo)
	case OpConcat:
		l := a.args[1]
		h := a.args[0]
		if hi < l.w {
			return tt.Extract(l, hi, lo)
		}
		if lo >= l.w {
			return tt.Extract(h, hi-l.w, lo-l.w)
		}
		return tt.Concat(tt.Extract(h, hi-l.w, 0), tt.Extract(l, l.w-1, lo))
	case OpZext:
		x := a.args[0]
		if hi < x.w {
			return tt.Extract(x, hi, lo)
		}
		if lo >= x.w {
			return tt.Const64(w, 0)
		}
		return tt.Zext(tt.Extract(x, x.w-1, lo), w)
	case OpSext:
		x := a.args[0]
		if hi < x.w {
			return tt.Extract(x, hi, lo)
		}
	case OpAnd, OpOr, OpXor:
		if w <= 64 && (a.args[0].isConst() || a.args[1].isConst() || lo%8 == 0 && w == 8) {
			return tt.Bin(a.op, tt.Extract(a.args[0], hi, lo), tt.Extract(a.args[1], hi, lo))
		}
	case OpIte:
		if a.args[1].isConst() && a.args[2].isConst() {
			return tt.Ite(a.args[0], tt.Extract(a.args[1], hi, lo), tt.Extract(a.args[2], hi, lo))
		}
	case OpAdd, OpSub, OpMul:
		if lo == 0 && a.w <= 64 {
			// low bits of add/sub/mul depend only on low bits
			return tt.Bin(a.op, tt.Extract(a.args[0], hi, 0), tt.Extract(a.args[1], hi, 0))
		}
	}
	return tt.mk(&Term{op: OpExtract, w: w, args: []*Term{a}, hi: hi, lo: lo})
}

// Const64 makes a zero/const of any width (wide consts only as zero via concat).
func (tt *TermTable) Const64(w int, v uint64) *Term {
	if w <= 64 {
		return tt.Const(w, v)
	}
	// build by concatenating 64-bit chunks
	r := tt.Const(64, v)
	rem := w - 64
	for rem > 0 {
		c := rem
		if c > 64 {
			c = 64
		}
		r = tt.mk(&Term{op: OpConcat, w: r.w + c, args: []*Term{tt.Const(c, 0), r}})
		rem -= c
	}
	return r
}

func (tt *TermTable) Zext(a *Term, w int) *Term {
	if w == a.w {
		return a
	}
	if w < a.w {
		return tt.Extract(a, w-1, 0)
	}
	if a.isConst() && w <= 64 {
		return tt.Const(w, a.val)
	}
	if a.op == OpZext {
		return tt.Zext(a.args[0], w)
	}
	return tt.mk(&Term{op: OpZext, w: w, args: []*Term{a}})
}

func (tt *TermTable) Sext(a *Term, w int) *Term {
	if w == a.w {
		return a
	}
	if w < a.w {
		return tt.Extract(a, w-1, 0)
	}
	if a.isConst() && w <= 64 {
		return tt.Const(w, uint64(sext64(a.val, a.w)))
	}
	if a.op == OpZext { // top bit known zero
		return tt.Zext(a.args[0], w)
	}
	return tt.mk(&Term{op: OpSext, w: w, args: []*Term{a}})
}

func (tt *TermTable) Ite(c, a, b *Term) *Term {
	if c.isConst() {
		if c.val != 0 {
			return a
		}
		return b
	}
	if a == b {
		return a
	}
	if a.w != b.w {
		panic("ite width mismatch")
	}
	if a.isBool() {
		// ite(c,a,b) = (c&a)|(!c&b)
		if a.isConst() && b.isConst() {
			if a.val != 0 {
				return c
			}
			return tt.Not(c)
		}
		return tt.BOr(tt.BAnd(c, a), tt.BAnd(tt.Not(c), b))
	}
	if c.op == OpNot {
		return tt.Ite(c.args[0], b, a)
	}
	return tt.mk(&Term{op: OpIte, w: a.w, args: []*Term{c, a, b}})
}

func (tt *TermTable) BAnd(a, b *Term) *Term {
	if a.isConst() {
		if a.val != 0 {
			return b
		}
		return a
	}
	if b.isConst() {
		if b.val != 0 {
			return a
		}
		return b
	}
	if a == b {
		return a
	}
	if a.op == OpNot && a.args[0] == b || b.op == OpNot && b.args[0] == a {
		return tt.fls
	}
	return tt.mk(&Term{op: OpBAnd, w: 0, args: []*Term{a, b}})
}

func (tt *TermTable) BOr(a, b *Term) *Term {
	if a.isConst() {
		if a.val != 0 {
			return a
		}
		return b
	}
	if b.isConst() {
		if b.val != 0 {
			return b
		}
		return a
	}
	if a == b {
		return a
	}
	if a.op == OpNot && a.args[0] == b || b.op == OpNot && b.args[0] == a {
		return tt.tru
	}
	return tt.mk(&Term{op: OpBOr, w: 0, args: []*Term{a, b}})
}

func (tt *TermTable) Eq(a, b *Term) *Term {
	if a.w != b.w {
		panic(fmt.Sprintf("Eq width mismatch %d vs %d", a.w, b.w))
	}
	if a == b {
		return tt.tru
	}
	if a.isConst() && b.isConst() && a.w <= 64 {
		return tt.Bool(a.val == b.val)
	}
	if a.isBool() {
		if a.isConst() {
			a, b = b, a
		}
		if b.isConst() {
			if b.val != 0 {
				return a
			}
			return tt.Not(a)
		}
	}
	if a.isConst() && !b.isConst() {
		a, b = b, a
	}
	if b.isConst() && a.w <= 64 && a.w > 0 {
		// known-zero contradiction
		if b.val&knownZero(a) != 0 {
			return tt.fls
		}
		switch a.op {
		case OpZext:
			x := a.args[0]
			if b.val>>uint(x.w) != 0 {
				return tt.fls
			}
			return tt.Eq(x, tt.Const(x.w, b.val))
		case OpIte:
			if a.args[1].isConst() && a.args[2].isConst() {
				t1 := a.args[1].val == b.val
				t2 := a.args[2].val == b.val
				switch {
				case t1 && t2:
					return tt.tru
				case t1:
					return a.args[0]
				case t2:
					return tt.Not(a.args[0])
				default:
					return tt.fls
				}
			}
		case OpXor:
			if a.args[1].isConst() {
				return tt.Eq(a.args[0], tt.Const(a.w, a.args[1].val^b.val))
			}
		case OpAdd:
			if a.args[1].isConst() {
				return tt.Eq(a.args[0], tt.Const(a.w, b.val-a.args[1].val))
			}
		case OpConcat:
			lo := a.args[1]
			hi := a.args[0]
			if lo.w < 64 {
				return tt.BAnd(tt.Eq(hi, tt.Const(hi.w, b.val>>uint(lo.w))), tt.Eq(lo, tt.Const(lo.w, b.val)))
			}
		}
	}
	if a.id > b.id && !b.isConst() {
		a, b = b, a
	}
	return tt.mk(&Term{op: OpEq, w: 0, args: []*Term{a, b}})
}

func (tt *TermTable) Cmp(op Op, a, b *Term) *Term {
	if a.w != b.w {
		panic(fmt.Sprintf("Cmp width mismatch %d vs %d", a.w, b.w))
	}
	w := a.w
	if a.isConst() && b.isConst() && w <= 64 {
		switch op {
		case OpUlt:
			return tt.Bool(a.val < b.val)
		case OpUle:
			return tt.Bool(a.val <= b.val)
		case OpSlt:
			return tt.Bool(sext64(a.val, w) < sext64(b.val, w))
		case OpSle:
			return tt.Bool(sext64(a.val, w) <= sext64(b.val, w))
		}
	}
	if a == b {
		return tt.Bool(op == OpUle || op == OpSle)
	}
	if w <= 64 {
		// range reasoning with known-zero bits
		maxA := mask(w) &^ knownZero(a)
		maxB := mask(w) &^ knownZero(b)
		top := uint64(1) << uint(w-1)
		aNonNeg := knownZero(a)&top != 0
		bNonNeg := knownZero(b)&top != 0
		if (op == OpSlt || op == OpSle) && aNonNeg && bNonNeg {
			if op == OpSlt {
				op = OpUlt
			} else {
				op = OpUle
			}
		}
		switch op {
		case OpUlt:
			if b.isConst() && maxA < b.val {
				return tt.tru
			}
			if b.isConst() && b.val == 0 {
				return tt.fls
			}
			if a.isConst() && a.val >= maxB {
				return tt.fls
			}
		case OpUle:
			if b.isConst() && maxA <= b.val {
				return tt.tru
			}
			if a.isConst() && a.val == 0 {
				return tt.tru
			}
			if a.isConst() && a.val > maxB {
				return tt.fls
			}
		case OpSlt:
			if aNonNeg && b.isConst() && sext64(b.val, w) <= 0 {
				return tt.fls
			}
			if bNonNeg && a.isConst() && sext64(a.val, w) < 0 {
				return tt.tru
			}
			if aNonNeg && b.isConst() && sext64(b.val, w) > 0 && maxA < b.val {
				return tt.tru
			}
		case OpSle:
			if aNonNeg && b.isConst() && sext64(b.val, w) < 0 {
				return tt.fls
			}
			if bNonNeg && a.isConst() && sext64(a.val, w) <= 0 {
				return tt.tru
			}
			if aNonNeg && b.isConst() && sext64(b.val, w) >= 0 && maxA <= b.val {
				return tt.tru
			}
		}
		// zext on both / zext vs const: compare narrower
		if a.op == OpZext && b.isConst() && (op == OpUlt || op == OpUle) {
			x := a.args[0]
			if b.val <= mask(x.w) {
				return tt.Cmp(op, x, tt.Const(x.w, b.val))
			}
		}
		if b.op == OpZext && a.isConst() && (op == OpUlt || op == OpUle) {
			x := b.args[0]
			if a.val <= mask(x.w) {
				return tt.Cmp(op, tt.Const(x.w, a.val), x)
			}
		}
		if a.op == OpZext && b.op == OpZext && a.args[0].w == b.args[0].w && (op == OpUlt || op == OpUle) {
			return tt.Cmp(op, a.args[0], b.args[0])
		}
	}
	return tt.mk(&Term{op: op, w: 0, args: []*Term{a, b}})
}

func (tt *TermTable) DeclareUF(name string, args []int, ret int) {
	if d, ok := tt.ufs[name]; ok {
		if len(d.args) != len(args) || d.ret != ret {
			panic("UF redeclared with different signature: " + name)
		}
		return
	}
	tt.ufs[name] = ufDecl{name, args, ret}
	tt.ufOrd = append(tt.ufOrd, name)
}

func (tt *TermTable) Apply(name string, ret int, args ...*Term) *Term {
	ws := make([]int, len(args))
	for i, a := range args {
		ws[i] = a.w
	}
	tt.DeclareUF(name, ws, ret)
	return tt.mk(&Term{op: OpApply, w: ret, name: name, args: args})
}

func sortStr(w int) string {
	if w == 0 {
		return "Bool"
	}
	return fmt.Sprintf("(_ BitVec %d)", w)
}

func constStr(w int, v uint64) string {
	if w == 0 {
		if v != 0 {
			return "true"
		}
		return "false"
	}
	if w%4 == 0 {
		return fmt.Sprintf("#x%0*x", w/4, v)
	}
	return fmt.Sprintf("#b%0*b", w, v)
}

var opNames = map[Op]string{
	OpAdd: "bvadd", OpSub: "bvsub", OpMul: "bvmul", OpUDiv: "bvudiv", OpURem: "bvurem",
	OpSDiv: "bvsdiv", OpSRem: "bvsrem", OpAnd: "bvand", OpOr: "bvor", OpXor: "bvxor",
	OpNeg: "bvneg", OpShl: "bvshl", OpLshr: "bvlshr", OpAshr: "bvashr", OpConcat: "concat",
	OpIte: "ite", OpEq: "=", OpUlt: "bvult", OpUle: "bvule", OpSlt: "bvslt", OpSle: "bvsle",
	OpBAnd: "and", OpBOr: "or",
}

func tname(t *Term) string {
	switch t.op {
	case OpConst:
		return constStr(t.w, t.val)
	case OpVar:
		return "|" + t.name + "|"
	}
	return fmt.Sprintf("t%d", t.id)
}

// body returns the SMT-LIB expression of t over the names of its children.
func body(t *Term) string {
	var sb strings.Builder
	switch t.op {
	case OpNot:
		if t.isBool() {
			sb.WriteString("(not ")
		} else {
			sb.WriteString("(bvnot ")
		}
		sb.WriteString(tname(t.args[0]))
		sb.WriteString(")")
	case OpExtract:
		fmt.Fprintf(&sb, "((_ extract %d %d) %s)", t.hi, t.lo, tname(t.args[0]))
	case OpZext:
		fmt.Fprintf(&sb, "((_ zero_extend %d) %s)", t.w-t.args[0].w, tname(t.args[0]))
	case OpSext:
		fmt.Fprintf(&sb, "((_ sign_extend %d) %s)", t.w-t.args[0].w, tname(t.args[0]))
	case OpApply:
		if len(t.args) == 0 {
			sb.WriteString("|" + t.name + "|")
		} else {
			sb.WriteString("(|" + t.name + "|")
			for _, a := range t.args {
				sb.WriteString(" " + tname(a))
			}
			sb.WriteString(")")
		}
	default:
		n, ok := opNames[t.op]
		if !ok {
			panic(fmt.Sprintf("no printer for op %d", t.op))
		}
		sb.WriteString("(" + n)
		for _, a := range t.args {
			sb.WriteString(" " + tname(a))
		}
		sb.WriteString(")")
	}
	return sb.String()
}

// Printer emits define-funs for DAG nodes on demand and remembers what it has emitted.
type Printer struct {
	defined map[int]bool
	declV   map[string]bool
	declF   map[string]bool
	tt      *TermTable
}

func NewPrinter(tt *TermTable) *Printer {
	return &Printer{defined: map[int]bool{}, declV: map[string]bool{}, declF: map[string]bool{}, tt: tt}
}

// Emit writes the definitions needed for t to sb and returns the name of t.
func (p *Printer) Emit(sb *strings.Builder, t *Term) string {
	switch t.op {
	case OpConst:
		return tname(t)
	case OpVar:
		if !p.declV[t.name] {
			p.declV[t.name] = true
			fmt.Fprintf(sb, "(declare-fun |%s| () %s)\n", t.name, sortStr(t.w))
		}
		return tname(t)
	}
	if p.defined[t.id] {
		return tname(t)
	}
	// iterative post-order to avoid deep recursion
	type fr struct {
		t *Term
		i int
	}
	stack := []fr{{t, 0}}
	for len(stack) > 0 {
		top := &stack[len(stack)-1]
		if top.i < len(top.t.args) {
			c := top.t.args[top.i]
			top.i++
			switch c.op {
			case OpConst:
			case OpVar:
				if !p.declV[c.name] {
					p.declV[c.name] = true
					fmt.Fprintf(sb, "(declare-fun |%s| () %s)\n", c.name, sortStr(c.w))
				}
			default:
				if !p.defined[c.id] {
					stack = append(stack, fr{c, 0})
				}
			}
			continue
		}
		x := top.t
		stack = stack[:len(stack)-1]
		if p.defined[x.id] {
			continue
		}
		if x.op == OpApply && !p.declF[x.name] {
			p.declF[x.name] = true
			d := p.tt.ufs[x.name]
			sb.WriteString("(declare-fun |" + x.name + "| (")
			for i, a := range d.args {
				if i > 0 {
					sb.WriteString(" ")
				}
				sb.WriteString(sortStr(a))
			}
			sb.WriteString(") " + sortStr(d.ret) + ")\n")
		}
		p.defined[x.id] = true
		fmt.Fprintf(sb, "(define-fun t%d () %s %s)\n", x.id, sortStr(x.w), body(x))
	}
	return tname(t)
}

var _ = bits.Len64
