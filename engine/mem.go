package main

// Memory operations: load/store, slices with symbolic bounds, maps with symbolic keys, iteration.

import (
	"fmt"
	"go/types"
	"sort"

	"golang.org/x/tools/go/ssa"
)

// cellOf turns any pointer value into a cell pointer (forking on symbolic indices).
func (p *Path) cellOf(ptr value) *value {
	switch x := ptr.(type) {
	case *value:
		return x
	case *eptr:
		if x == nil {
			return nil
		}
		if x.abs != nil {
			panic(p.unsupported("address of abstract array element used as cell"))
		}
		i := p.concretize(x.idx, "element index")
		return &x.back[i]
	case nil:
		return nil
	}
	panic(p.unsupported(fmt.Sprintf("cellOf %T", ptr)))
}

func (p *Path) load(ptr value) value {
	switch x := ptr.(type) {
	case *value:
		if x == nil {
			panic(p.rtPanic("invalid memory address or nil pointer dereference"))
		}
		return copyVal(*x)
	case *eptr:
		if x == nil {
			panic(p.rtPanic("invalid memory address or nil pointer dereference"))
		}
		if x.abs != nil {
			if x.idx.isConst() && x.abs.known != nil {
				if v, ok := x.abs.known[int(x.idx.val)]; ok {
					return v
				}
			}
			p.fresh++
			return p.tt.Var(fmt.Sprintf("abs!%s!%d", x.abs.name, p.fresh), 8)
		}
		return p.selectElem(x.back, x.idx)
	case nil:
		panic(p.rtPanic("invalid memory address or nil pointer dereference"))
	}
	panic(p.unsupported(fmt.Sprintf("load through %T", ptr)))
}

// selectElem builds an ite-chain for back[idx] (scalar elements only).
func (p *Path) selectElem(back []value, idx *Term) value {
	if idx.isConst() {
		return copyVal(back[idx.val])
	}
	if len(back) == 0 {
		panic(p.unsupported("symbolic index into empty array"))
	}
	if _, ok := back[0].(*Term); !ok || len(back) > 4096 {
		i := p.concretize(idx, "array index")
		return copyVal(back[i])
	}
	res := back[len(back)-1].(*Term)
	for i := len(back) - 2; i >= 0; i-- {
		e := back[i].(*Term)
		if e == res {
			continue
		}
		res = p.tt.Ite(p.tt.Eq(idx, p.tt.Const(idx.w, uint64(i))), e, res)
	}
	return res
}

func (p *Path) store(ptr value, v value) {
	switch x := ptr.(type) {
	case *value:
		if x == nil {
			panic(p.rtPanic("invalid memory address or nil pointer dereference"))
		}
		storeInPlace(x, v)
		return
	case *eptr:
		if x == nil {
			panic(p.rtPanic("invalid memory address or nil pointer dereference"))
		}
		if x.abs != nil {
			if x.idx.isConst() {
				if x.abs.known == nil {
					x.abs.known = map[int]value{}
				}
				x.abs.known[int(x.idx.val)] = v
			} else {
				x.abs.known = nil // a store at an unknown position may overwrite any known byte
			}
			return
		}
		if x.idx.isConst() {
			x.back[x.idx.val] = copyVal(v)
			return
		}
		nv, ok := v.(*Term)
		if !ok || len(x.back) > 4096 {
			i := p.concretize(x.idx, "array index")
			x.back[i] = copyVal(v)
			return
		}
		for i := range x.back {
			old := x.back[i].(*Term)
			x.back[i] = p.tt.Ite(p.tt.Eq(x.idx, p.tt.Const(x.idx.w, uint64(i))), nv, old)
		}
		return
	case nil:
		panic(p.rtPanic("invalid memory address or nil pointer dereference"))
	}
	panic(p.unsupported(fmt.Sprintf("store through %T", ptr)))
}

func (p *Path) intTerm(v value) *Term {
	t, ok := v.(*Term)
	if !ok {
		panic(p.unsupported(fmt.Sprintf("expected integer term, got %T", v)))
	}
	if t.w == 64 {
		return t
	}
	// indices may be of any integer type; ssa keeps their static type so signedness is lost here:
	// Go requires non-negative constant or any integer type; treat narrower as zero-extended unsigned
	// unless caller converted. (go/ssa inserts conversions for non-int indices only sometimes.)
	return p.tt.Zext(t, 64)
}

// idxTerm converts an index operand with its static type to a 64-bit signed term.
func (p *Path) idxTermTyped(v value, t types.Type) *Term {
	x := v.(*Term)
	if x.w == 64 {
		return x
	}
	_, signed, _ := widthOf(t)
	if signed {
		return p.tt.Sext(x, 64)
	}
	return p.tt.Zext(x, 64)
}

// inBounds checks 0 <= idx < n, forking a panic path if it can fail.
func (p *Path) checkIndex(idx, n *Term) {
	ok := p.tt.Cmp(OpUlt, idx, n) // unsigned compare covers negative
	if !p.branch(ok) {
		panic(p.rtPanic(fmt.Sprintf("index out of range [%s] with length %s", valStr(idx), valStr(n))))
	}
}

func (p *Path) indexAddr(x value, idxv value) value {
	idx := p.intTerm(idxv)
	switch x := x.(type) {
	case *sliceV:
		p.checkIndex(idx, x.len)
		if p.eagerOffsets && x.abs == nil && !idx.isConst() {
			idx = p.tt.Const(64, p.concretize(idx, "index"))
		}
		pos := p.tt.Bin(OpAdd, x.off, idx)
		if x.abs != nil {
			return &eptr{abs: x.abs, idx: pos}
		}
		if pos.isConst() {
			return &x.back[pos.val]
		}
		return &eptr{back: x.back, idx: pos}
	case *value: // *array
		if x == nil {
			panic(p.rtPanic("invalid memory address or nil pointer dereference"))
		}
		a := (*x).(array)
		p.checkIndex(idx, p.i64(int64(len(a))))
		if idx.isConst() {
			return &a[idx.val]
		}
		return &eptr{back: a, idx: idx}
	case *eptr:
		panic(p.unsupported("IndexAddr through element pointer"))
	}
	panic(p.unsupported(fmt.Sprintf("IndexAddr on %T", x)))
}

func (p *Path) index(instr *ssa.Index, x value, idxv value) value {
	idx := p.intTerm(idxv)
	switch x := x.(type) {
	case array:
		p.checkIndex(idx, p.i64(int64(len(x))))
		return p.selectElem(x, idx)
	case string:
		p.checkIndex(idx, p.i64(int64(len(x))))
		if idx.isConst() {
			return p.tt.Const(8, uint64(x[idx.val]))
		}
		b := make([]value, len(x))
		for i := range b {
			b[i] = p.tt.Const(8, uint64(x[i]))
		}
		return p.selectElem(b, idx)
	case *symStr:
		p.checkIndex(idx, p.i64(int64(len(x.b))))
		return p.selectElem(x.b, idx)
	}
	panic(p.unsupported(fmt.Sprintf("Index on %T", x)))
}

func (p *Path) makeSlice(t types.Type, lenv, capv value) value {
	n := p.intTerm(lenv)
	c := p.intTerm(capv)
	cc, ok := concInt(c)
	if !ok {
		// symbolic capacity: concretise (rare); symbolic len with concrete cap is kept
		cc = int64(p.concretize(c, "make cap"))
		if n == c {
			n = p.i64(cc)
		}
		c = p.i64(cc)
	}
	if cc < 0 {
		panic(p.rtPanic("makeslice: cap out of range"))
	}
	okc := p.tt.BAnd(p.tt.Cmp(OpSle, p.i64(0), n), p.tt.Cmp(OpSle, n, c))
	if !p.branch(okc) {
		panic(p.rtPanic("makeslice: len out of range"))
	}
	back := make([]value, cc)
	elem := t.Underlying().(*types.Slice).Elem()
	if cc > 0 {
		z := p.zero(elem)
		switch z.(type) {
		case structure, array:
			for i := range back {
				back[i] = p.zero(elem)
			}
		default:
			for i := range back {
				back[i] = z
			}
		}
	}
	return &sliceV{back: back, off: p.i64(0), len: n, cap: c, nonNil: true}
}

func (s *sliceV) isNil() bool { return s == nil || (!s.nonNil && s.back == nil && s.abs == nil) }

func (p *Path) sliceOp(instr *ssa.Slice, x, lo, hi, max value) value {
	var l, h, m *Term
	if lo != nil {
		l = p.idxTermTyped(lo, instr.Low.Type())
	} else {
		l = p.i64(0)
	}
	if hi != nil {
		h = p.idxTermTyped(hi, instr.High.Type())
	}
	if max != nil {
		m = p.idxTermTyped(max, instr.Max.Type())
	}
	switch x := x.(type) {
	case string, *symStr:
		var n int
		if s, ok := x.(string); ok {
			n = len(s)
		} else {
			n = len(x.(*symStr).b)
		}
		if h == nil {
			h = p.i64(int64(n))
		}
		ok := p.tt.BAnd(p.tt.Cmp(OpUle, l, h), p.tt.Cmp(OpUle, h, p.i64(int64(n))))
		if !p.branch(ok) {
			panic(p.rtPanic("slice bounds out of range (string)"))
		}
		lc := p.concretize(l, "string slice low")
		hc := p.concretize(h, "string slice high")
		if s, ok := x.(string); ok {
			return s[lc:hc]
		}
		return p.normStr(x.(*symStr).b[lc:hc])
	case *sliceV:
		return p.reslice(x, l, h, m)
	case *value: // *array
		if x == nil {
			panic(p.rtPanic("slice of nil array pointer"))
		}
		a := (*x).(array)
		n := p.i64(int64(len(a)))
		base := &sliceV{back: a, off: p.i64(0), len: n, cap: n, nonNil: true}
		return p.reslice(base, l, h, m)
	}
	panic(p.unsupported(fmt.Sprintf("slice of %T", x)))
}

func (p *Path) reslice(x *sliceV, l, h, m *Term) value {
	if h == nil {
		h = x.len
	}
	capEnd := x.cap
	if m != nil {
		capEnd = m
	}
	// 0 <= l <= h <= m <= cap (unsigned comparisons catch negatives)
	ok := p.tt.BAnd(p.tt.Cmp(OpUle, l, h), p.tt.Cmp(OpUle, h, capEnd))
	if m != nil {
		ok = p.tt.BAnd(ok, p.tt.Cmp(OpUle, m, x.cap))
	}
	if !p.branch(ok) {
		panic(p.rtPanic(fmt.Sprintf("slice bounds out of range [%s:%s] with capacity %s", valStr(l), valStr(h), valStr(x.cap))))
	}
	if x.isNil() {
		return &sliceV{off: p.i64(0), len: p.i64(0), cap: p.i64(0)}
	}
	if p.eagerOffsets && x.abs == nil {
		// parser mode: fork over the feasible values of a symbolic bound instead of carrying ite-chains
		if !l.isConst() {
			l = p.tt.Const(64, p.concretize(l, "slice low bound"))
		}
		if !h.isConst() {
			h = p.tt.Const(64, p.concretize(h, "slice high bound"))
		}
	}
	return &sliceV{
		back:   x.back,
		abs:    x.abs,
		off:    p.tt.Bin(OpAdd, x.off, l),
		len:    p.tt.Bin(OpSub, h, l),
		cap:    p.tt.Bin(OpSub, capEnd, l),
		nonNil: true,
	}
}

func (p *Path) sliceToArrayPointer(t types.Type, x value) value {
	s := x.(*sliceV)
	at := deref(t).Underlying().(*types.Array)
	n := at.Len()
	if !p.branch(p.tt.Cmp(OpUle, p.i64(n), s.len)) {
		panic(p.rtPanic("cannot convert slice to array pointer: length too short"))
	}
	if s.isNil() {
		return (*value)(nil)
	}
	off := p.concretize(s.off, "slice offset")
	cell := new(value)
	*cell = array(s.back[off : off+uint64(n) : off+uint64(n)])
	return cell
}

// elems returns the concrete element window of a slice (concretising offset and length).
func (p *Path) elems(s *sliceV, what string) []value {
	if s.isNil() {
		return nil
	}
	if s.abs != nil {
		panic(p.unsupported("content of abstract slice needed for " + what))
	}
	off := p.concretize(s.off, what+" offset")
	n := p.concretize(s.len, what+" length")
	return s.back[off : off+n]
}

func (p *Path) sliceLenConc(s *sliceV, what string) int {
	return int(p.concretize(s.len, what+" length"))
}

// copyOp implements the copy builtin.
func (p *Path) copyOp(dstv, srcv value) value {
	dst := dstv.(*sliceV)
	var srcLen *Term
	var srcElems func() []value
	switch s := srcv.(type) {
	case *sliceV:
		srcLen = s.len
		srcElems = func() []value { return p.elems(s, "copy source") }
		if s.abs != nil || dst.abs != nil {
			// length-only semantics
			n := p.minTerm(dst.len, srcLen)
			if dst.abs == nil && !dst.isNil() {
				// destination content becomes unknown in [0,n): havoc
				p.havoc(dst, n)
			} else if dst.abs != nil {
				dst.abs.forget(dst.off)
			}
			return n
		}
	case string:
		srcLen = p.i64(int64(len(s)))
		srcElems = func() []value {
			b := make([]value, len(s))
			for i := range b {
				b[i] = p.tt.Const(8, uint64(s[i]))
			}
			return b
		}
		if dst.abs != nil {
			return p.minTerm(dst.len, srcLen)
		}
	case *symStr:
		srcLen = p.i64(int64(len(s.b)))
		srcElems = func() []value { return s.b }
		if dst.abs != nil {
			return p.minTerm(dst.len, srcLen)
		}
	default:
		panic(p.unsupported(fmt.Sprintf("copy from %T", srcv)))
	}
	nT := p.minTerm(dst.len, srcLen)
	n := int(p.concretize(nT, "copy length"))
	if n == 0 {
		return p.i64(0)
	}
	src := srcElems()
	d := p.elemsN(dst, n, "copy destination")
	// memmove semantics
	tmp := make([]value, n)
	for i := 0; i < n; i++ {
		tmp[i] = copyVal(src[i])
	}
	copy(d, tmp)
	return p.i64(int64(n))
}

func (p *Path) elemsN(s *sliceV, n int, what string) []value {
	off := p.concretize(s.off, what+" offset")
	return s.back[off : off+uint64(n)]
}

func (p *Path) havoc(dst *sliceV, n *Term) {
	nn := p.concretize(n, "havoc length")
	off := p.concretize(dst.off, "havoc offset")
	for i := uint64(0); i < nn; i++ {
		p.fresh++
		dst.back[off+i] = p.tt.Var(fmt.Sprintf("havoc!%d", p.fresh), 8)
	}
}

func (p *Path) minTerm(a, b *Term) *Term {
	return p.tt.Ite(p.tt.Cmp(OpSlt, a, b), a, b)
}

// appendOp implements append(s, elems...).
func (p *Path) appendOp(sv, tv value, elemT types.Type) value {
	s := sv.(*sliceV)
	var add []value
	switch t := tv.(type) {
	case *sliceV:
		if t.abs != nil || s.abs != nil {
			return p.appendAbstract(s, t)
		}
		add = p.elems(t, "append source")
	case string:
		for i := 0; i < len(t); i++ {
			add = append(add, p.tt.Const(8, uint64(t[i])))
		}
	case *symStr:
		add = t.b
	default:
		panic(p.unsupported(fmt.Sprintf("append of %T", tv)))
	}
	if len(add) == 0 {
		return s
	}
	n := int64(len(add))
	newLen := p.tt.Bin(OpAdd, s.len, p.i64(n))
	if !s.isNil() {
		// fits in capacity?
		fits := p.tt.Cmp(OpSle, newLen, s.cap)
		if p.branch(fits) {
			off := p.concretize(s.off, "append offset")
			l := p.concretize(s.len, "append length")
			for i, e := range add {
				s.back[off+l+uint64(i)] = copyVal(e)
			}
			return &sliceV{back: s.back, off: s.off, len: newLen, cap: s.cap, nonNil: true}
		}
	}
	// reallocate
	old := p.elems(s, "append (grow)")
	nc := int64(len(old)) + n
	c := nc
	if int64(len(old))*2 > c {
		c = int64(len(old)) * 2
	}
	back := make([]value, c)
	for i, e := range old {
		back[i] = copyVal(e)
	}
	for i, e := range add {
		back[len(old)+i] = copyVal(e)
	}
	if c > nc {
		z := p.zero(elemT)
		for i := nc; i < c; i++ {
			back[i] = copyVal(z)
		}
	}
	return &sliceV{back: back, off: p.i64(0), len: p.i64(nc), cap: p.i64(c), nonNil: true}
}

// appendAbstract: length-only append; result is in place when capacity suffices (obligation forks).
func (p *Path) appendAbstract(s, t *sliceV) value {
	newLen := p.tt.Bin(OpAdd, s.len, t.len)
	if !s.isNil() {
		fits := p.tt.Cmp(OpSle, newLen, s.cap)
		if p.branch(fits) {
			if s.abs == nil {
				// concrete destination, abstract source: continue with an abstract array that remembers the
				// destination's (concrete-position) bytes
				a := p.absFromConcrete(s)
				return &sliceV{abs: a, off: p.i64(0), len: newLen, cap: s.cap, nonNil: true}
			}
			// appended bytes known? (concrete source of concrete length at a concrete position)
			if t.abs == nil {
				if so, ok1 := concInt(s.off); ok1 {
					if sl, ok2 := concInt(s.len); ok2 {
						if tl, ok3 := concInt(t.len); ok3 {
							if s.abs.known == nil {
								s.abs.known = map[int]value{}
							}
							src := p.elems(t, "append source")
							for i := 0; i < int(tl); i++ {
								s.abs.known[int(so+sl)+i] = src[i]
							}
						}
					}
				}
			} else {
				s.abs.forget(p.tt.Bin(OpAdd, s.off, s.len))
			}
			return &sliceV{abs: s.abs, back: s.back, off: s.off, len: newLen, cap: s.cap, nonNil: true}
		}
	}
	if s.abs == nil && !s.isNil() {
		a := p.absFromConcrete(s)
		return &sliceV{abs: a, off: p.i64(0), len: newLen, cap: newLen, nonNil: true}
	}
	// grows: new abstract array of symbolic size is not representable; use a large fresh abstract array
	p.fresh++
	a := &absArr{n: 1 << 30, name: fmt.Sprintf("grown%d", p.fresh)}
	if s.abs != nil && s.abs.known != nil {
		// the reallocated array starts with a copy of the old contents
		if so, ok1 := concInt(s.off); ok1 {
			if sl, ok2 := concInt(s.len); ok2 {
				a.known = map[int]value{}
				for i := 0; i < int(sl); i++ {
					if v, ok := s.abs.known[int(so)+i]; ok {
						a.known[i] = v
					}
				}
				if t.abs == nil {
					if tl, ok3 := concInt(t.len); ok3 {
						src := p.elems(t, "append source")
						for i := 0; i < int(tl); i++ {
							a.known[int(sl)+i] = src[i]
						}
					}
				}
			}
		}
	}
	return &sliceV{abs: a, off: p.i64(0), len: newLen, cap: newLen, nonNil: true}
}

// absFromConcrete makes an abstract array that remembers the bytes of a concrete slice (positions 0..len-1).
func (p *Path) absFromConcrete(s *sliceV) *absArr {
	p.fresh++
	a := &absArr{n: 1 << 30, name: fmt.Sprintf("mixed%d", p.fresh), known: map[int]value{}}
	for i, e := range p.elems(s, "append destination") {
		a.known[i] = e
	}
	return a
}

func (p *Path) unsupportedf(f string, a ...interface{}) {
	panic(p.unsupported(fmt.Sprintf(f, a...)))
}

// ---- strings ----

func (p *Path) normStr(b []value) value {
	allc := true
	for _, e := range b {
		if !e.(*Term).isConst() {
			allc = false
			break
		}
	}
	if allc {
		bs := make([]byte, len(b))
		for i, e := range b {
			bs[i] = byte(e.(*Term).val)
		}
		return string(bs)
	}
	c := make([]value, len(b))
	copy(c, b)
	return &symStr{c}
}

func (p *Path) strBytes(v value) []value {
	switch s := v.(type) {
	case string:
		b := make([]value, len(s))
		for i := range b {
			b[i] = p.tt.Const(8, uint64(s[i]))
		}
		return b
	case *symStr:
		return s.b
	}
	panic(p.unsupported(fmt.Sprintf("strBytes of %T", v)))
}

func (p *Path) bytesToSlice(b []value) *sliceV {
	back := make([]value, len(b))
	copy(back, b)
	n := p.i64(int64(len(b)))
	return &sliceV{back: back, off: p.i64(0), len: n, cap: n, nonNil: true}
}

// ---- maps ----

func (p *Path) mapFind(m *mapV, key value) int {
	if m == nil {
		return -1
	}
	for i := range m.keys {
		if !m.alive[i] {
			continue
		}
		eq := p.equals(m.kt, m.keys[i], key)
		if p.branch(eq) {
			return i
		}
	}
	return -1
}

func (p *Path) mapSet(m *mapV, key, v value) {
	if i := p.mapFind(m, key); i >= 0 {
		m.vals[i] = v
		return
	}
	m.keys = append(m.keys, copyVal(key))
	m.vals = append(m.vals, v)
	m.alive = append(m.alive, true)
}

func (p *Path) mapDelete(m *mapV, key value) {
	if i := p.mapFind(m, key); i >= 0 {
		m.alive[i] = false
	}
}

func (p *Path) mapLen(m *mapV) int {
	if m == nil {
		return 0
	}
	n := 0
	for _, a := range m.alive {
		if a {
			n++
		}
	}
	return n
}

func (p *Path) lookup(instr *ssa.Lookup, x, key value) value {
	switch x := x.(type) {
	case *mapV:
		var v value
		ok := false
		if i := p.mapFind(x, key); i >= 0 {
			v = copyVal(x.vals[i])
			ok = true
		} else {
			v = p.zero(instr.X.Type().Underlying().(*types.Map).Elem())
		}
		if instr.CommaOk {
			return tuple{v, p.tt.Bool(ok)}
		}
		return v
	case string, *symStr:
		// string indexing s[i]
		idx := p.intTerm(key)
		b := p.strBytes(x)
		p.checkIndex(idx, p.i64(int64(len(b))))
		return p.selectElem(b, idx)
	}
	panic(p.unsupported(fmt.Sprintf("lookup on %T", x)))
}

// ---- iteration ----

type iter interface {
	next(p *Path) tuple
}

type stringIter struct {
	s   string
	pos int
}

func (it *stringIter) next(p *Path) tuple {
	if it.pos >= len(it.s) {
		return tuple{p.tt.Bool(false), p.i64(0), p.tt.Const(32, 0)}
	}
	for i, r := range it.s[it.pos:] {
		_ = i
		start := it.pos
		it.pos += len(string(r))
		if r == 0xFFFD {
			it.pos = start + 1
		}
		return tuple{p.tt.Bool(true), p.i64(int64(start)), p.tt.Const(32, uint64(r))}
	}
	return tuple{p.tt.Bool(false), p.i64(0), p.tt.Const(32, 0)}
}

type mapIter struct {
	m     *mapV
	order []int
	pos   int
}

func (it *mapIter) next(p *Path) tuple {
	for it.pos < len(it.order) {
		i := it.order[it.pos]
		it.pos++
		if i < len(it.m.alive) && it.m.alive[i] {
			return tuple{p.tt.Bool(true), copyVal(it.m.keys[i]), copyVal(it.m.vals[i])}
		}
	}
	return tuple{p.tt.Bool(false), nil, nil}
}

func (p *Path) rangeIter(x value, t types.Type) iter {
	switch x := x.(type) {
	case *mapV:
		it := &mapIter{m: x}
		if x != nil {
			for i := range x.keys {
				if x.alive[i] {
					it.order = append(it.order, i)
				}
			}
			if p.mapOrderNondet && len(it.order) > 1 {
				// choose a rotation/permutation via decisions: pick first element repeatedly
				rest := append([]int(nil), it.order...)
				var ord []int
				for len(rest) > 1 {
					c := p.decideCtl(len(rest))
					ord = append(ord, rest[c])
					rest = append(rest[:c], rest[c+1:]...)
				}
				ord = append(ord, rest[0])
				it.order = ord
			}
		}
		return it
	case string:
		return &stringIter{s: x}
	}
	panic(p.unsupported(fmt.Sprintf("range over %T", x)))
}

var _ = sort.Ints

// storeInPlace writes v into the cell, element-wise for aggregates so that interior pointers
// (&s.f, &a[i]) taken earlier stay valid, as in Go.
func storeInPlace(cell *value, v value) {
	switch rhs := v.(type) {
	case structure:
		if lhs, ok := (*cell).(structure); ok && len(lhs) == len(rhs) {
			for i := range lhs {
				storeInPlace(&lhs[i], rhs[i])
			}
			return
		}
	case array:
		if lhs, ok := (*cell).(array); ok && len(lhs) == len(rhs) {
			if len(rhs) > 0 {
				switch rhs[0].(type) {
				case structure, array:
					for i := range lhs {
						storeInPlace(&lhs[i], rhs[i])
					}
					return
				}
			}
			copy(lhs, rhs)
			return
		}
	}
	*cell = copyVal(v)
}
