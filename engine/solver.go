package main

// Long-lived incremental solver processes (z3 -in / cvc5 --incremental) and one-shot portfolio queries.

import (
	"syscall"
	"bufio"
	"context"
	"fmt"
	"io"
	"os"
	"os/exec"
	"strings"
	"sync"
	"time"
)

type SolverStats struct {
	mu      sync.Mutex
	Sat     int
	Unsat   int
	Unknown int
	Errors  int
	TimeS   map[string]float64
	Queries int
}

func (s *SolverStats) add(name, verdict string, d time.Duration) {
	s.mu.Lock()
	defer s.mu.Unlock()
	if s.TimeS == nil {
		s.TimeS = map[string]float64{}
	}
	s.TimeS[name] += d.Seconds()
	s.Queries++
	switch verdict {
	case "sat":
		s.Sat++
	case "unsat":
		s.Unsat++
	case "error":
		s.Errors++
	default:
		s.Unknown++
	}
}

var gStats = &SolverStats{}

type Solver struct {
	name  string
	cmd   *exec.Cmd
	in    io.WriteCloser
	out   *bufio.Reader
	log   *os.File
	dead  bool
	hung  bool
	tmoMs int
}

func solverArgs(kind string) (string, []string) {
	switch kind {
	case "z3":
		return "z3", []string{"-in"}
	case "z3-new":
		return "z3-new", []string{"-in"}
	case "cvc5":
		return "cvc5", []string{"--incremental", "--lang=smt2", "--produce-models"}
	case "cvc5-int":
		return "cvc5", []string{"--incremental", "--lang=smt2", "--produce-models", "--solve-bv-as-int=sum"}
	}
	panic("unknown solver " + kind)
}

func StartSolver(kind string, timeoutMs int) (*Solver, error) {
	bin, args := solverArgs(kind)
	cmd := exec.Command(bin, args...)
	cmd.SysProcAttr = &syscall.SysProcAttr{Pdeathsig: syscall.SIGKILL}
	in, err := cmd.StdinPipe()
	if err != nil {
		return nil, err
	}
	out, err := cmd.StdoutPipe()
	if err != nil {
		return nil, err
	}
	cmd.Stderr = nil
	if err := cmd.Start(); err != nil {
		return nil, err
	}
	s := &Solver{name: kind, cmd: cmd, in: in, out: bufio.NewReaderSize(out, 1<<20), tmoMs: timeoutMs}
	if p := os.Getenv("GOSYM_SMTLOG"); p != "" {
		s.log, _ = os.OpenFile(fmt.Sprintf("%s.%d.smt2", p, cmd.Process.Pid), os.O_CREATE|os.O_WRONLY|os.O_TRUNC, 0644)
	}
	if strings.HasPrefix(kind, "z3") {
		s.Send("(set-option :print-success false)\n(set-option :produce-models true)\n")
		s.Send(fmt.Sprintf("(set-option :timeout %d)\n", timeoutMs))
	} else {
		s.Send("(set-option :print-success false)\n(set-logic ALL)\n")
		s.Send(fmt.Sprintf("(set-option :tlimit-per %d)\n", timeoutMs))
	}
	return s, nil
}

func (s *Solver) Send(txt string) {
	if s.dead {
		return
	}
	if s.log != nil {
		s.log.WriteString(txt)
	}
	if _, err := io.WriteString(s.in, txt); err != nil {
		s.dead = true
	}
}

func (s *Solver) readLine() (string, error) {
	line, err := s.out.ReadString('\n')
	return strings.TrimSpace(line), err
}

var errSolverHung = fmt.Errorf("solver hung")

type lineRes struct {
	s   string
	err error
}

func (s *Solver) readLineTimeout(d time.Duration) (string, error) {
	ch := make(chan lineRes, 1)
	go func() {
		l, e := s.readLine()
		ch <- lineRes{l, e}
	}()
	select {
	case r := <-ch:
		return r.s, r.err
	case <-time.After(d):
		return "", errSolverHung
	}
}

// Check runs (check-sat-assuming (lits...)) (or plain check-sat when lits is empty).
func (s *Solver) Check(lits ...string) string {
	if s.dead {
		if s.hung {
			return "unknown"
		}
		return "error"
	}
	t0 := time.Now()
	if len(lits) == 0 {
		s.Send("(check-sat)\n")
	} else {
		s.Send("(check-sat-assuming (" + strings.Join(lits, " ") + "))\n")
	}
	res := "error"
	for {
		line, err := s.readLineTimeout(time.Duration(s.tmoMs)*time.Millisecond + 15*time.Second)
		if err == errSolverHung {
			// the solver ignored its own timeout: kill it; the caller restarts one for the next path
			s.dead = true
			s.hung = true
			s.cmd.Process.Kill()
			res = "unknown"
			break
		}
		if err != nil {
			s.dead = true
			res = "error"
			break
		}
		if line == "" {
			continue
		}
		if line == "sat" || line == "unsat" || line == "unknown" {
			res = line
			break
		}
		if strings.HasPrefix(line, "(error") {
			fmt.Fprintf(os.Stderr, "solver %s: %s\n", s.name, line)
			res = "error"
			// keep reading until verdict line arrives (z3 prints error then continues)
			continue
		}
		// other noise (e.g. timeout notes)
	}
	gStats.add(s.name, res, time.Since(t0))
	return res
}

// GetValues asks for the values of the named constants (after sat).
func (s *Solver) GetValues(names []string) map[string]string {
	res := map[string]string{}
	if s.dead || len(names) == 0 {
		return res
	}
	// chunk to keep lines manageable
	for i := 0; i < len(names); i += 200 {
		j := i + 200
		if j > len(names) {
			j = len(names)
		}
		s.Send("(get-value (" + strings.Join(names[i:j], " ") + "))\n")
		txt := s.readSexp()
		parseValues(txt, res)
	}
	return res
}

func (s *Solver) readSexp() string {
	var sb strings.Builder
	depth := 0
	started := false
	for {
		line, err := s.out.ReadString('\n')
		if err != nil {
			s.dead = true
			return sb.String()
		}
		inBar := false
		for _, c := range line {
			switch {
			case c == '|':
				inBar = !inBar
			case inBar:
			case c == '(':
				depth++
				started = true
			case c == ')':
				depth--
			}
		}
		sb.WriteString(line)
		if started && depth <= 0 {
			return sb.String()
		}
		if !started && strings.TrimSpace(line) != "" {
			return sb.String()
		}
	}
}

// parseValues parses "((name val) (name val) ...)" with val in #x.. / #b.. / true / false / (_ bvN w).
func parseValues(txt string, out map[string]string) {
	toks := tokenize(txt)
	// expect ( ( name val ) ... )
	i := 0
	var next func() string
	next = func() string {
		if i >= len(toks) {
			return ""
		}
		t := toks[i]
		i++
		return t
	}
	if next() != "(" {
		return
	}
	for i < len(toks) {
		t := next()
		if t == ")" || t == "" {
			return
		}
		if t != "(" {
			continue
		}
		name := next()
		v := next()
		if v == "(" { // (_ bv123 32)
			a := next()
			b := next()
			c := next()
			next() // )
			v = a + " " + b + " " + c
		}
		next() // )
		out[strings.Trim(name, "|")] = v
	}
}

func tokenize(s string) []string {
	var toks []string
	i := 0
	for i < len(s) {
		c := s[i]
		switch {
		case c == ' ' || c == '\n' || c == '\t' || c == '\r':
			i++
		case c == '(' || c == ')':
			toks = append(toks, string(c))
			i++
		case c == '|':
			j := i + 1
			for j < len(s) && s[j] != '|' {
				j++
			}
			toks = append(toks, s[i:j+1])
			i = j + 1
		default:
			j := i
			for j < len(s) && !strings.ContainsRune(" \n\t\r()", rune(s[j])) {
				j++
			}
			toks = append(toks, s[i:j])
			i = j
		}
	}
	return toks
}

// parseBV turns a model value into uint64 (low 64 bits) and ok.
func parseBV(v string) (uint64, bool) {
	switch {
	case v == "true":
		return 1, true
	case v == "false":
		return 0, true
	case strings.HasPrefix(v, "#x"):
		var r uint64
		h := v[2:]
		if len(h) > 16 {
			h = h[len(h)-16:]
		}
		_, err := fmt.Sscanf(h, "%x", &r)
		return r, err == nil
	case strings.HasPrefix(v, "#b"):
		var r uint64
		b := v[2:]
		if len(b) > 64 {
			b = b[len(b)-64:]
		}
		for _, c := range b {
			r = r<<1 | uint64(c-'0')
		}
		return r, true
	case strings.HasPrefix(v, "_ bv"):
		var r uint64
		var w int
		_, err := fmt.Sscanf(v, "_ bv%d %d", &r, &w)
		return r, err == nil
	}
	return 0, false
}

func (s *Solver) Close() {
	if s.cmd != nil && s.cmd.Process != nil {
		s.in.Close()
		s.cmd.Process.Kill()
		s.cmd.Wait()
	}
	if s.log != nil {
		s.log.Close()
	}
}

// OneShot runs a standalone script through a fresh solver process with a wall-clock cap.
func OneShot(kind string, script string, timeout time.Duration) string {
	bin, args := solverArgs(kind)
	// non-incremental flavour for one-shot
	var a2 []string
	for _, a := range args {
		if a == "--incremental" {
			continue
		}
		a2 = append(a2, a)
	}
	// the solver's own hard time limit as well: if this process is killed the child must not run on for ever
	secs := int(timeout/time.Second) + 5
	if strings.HasPrefix(kind, "cvc5") {
		a2 = append(a2, fmt.Sprintf("--tlimit=%d", secs*1000))
	} else {
		a2 = append(a2, fmt.Sprintf("-T:%d", secs))
	}
	ctx, cancel := context.WithTimeout(context.Background(), timeout)
	defer cancel()
	cmd := exec.CommandContext(ctx, bin, a2...)
	cmd.SysProcAttr = &syscall.SysProcAttr{Pdeathsig: syscall.SIGKILL}
	cmd.Stdin = strings.NewReader(script)
	t0 := time.Now()
	out, _ := cmd.Output()
	res := "unknown"
	txt := string(out)
	for _, line := range strings.Split(txt, "\n") {
		line = strings.TrimSpace(line)
		if strings.HasPrefix(line, "(error") {
			res = "error"
			break
		}
		if line == "sat" || line == "unsat" || line == "unknown" {
			res = line
			break
		}
	}
	gStats.add(kind+"(oneshot)", res, time.Since(t0))
	return res
}
