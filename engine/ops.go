package main

// Operators, conversions, equality and builtins.

import (
	"fmt"
	"go/token"
	"go/types"
	"math"
	"strings"

	"golang.org/x/tools/go/ssa"
)

func (p *Path) unop(fr *frame, instr *ssa.UnOp, x value) value {
	switch instr.Op {
	case token.MUL: // load
		return p.load(x)
	case token.ARROW:
		v, ok := p.chanRecv(x.(*chanV), instr.X.Type().Underlying().(*types.Chan).Elem())
		if instr.CommaOk {
			return tuple{v, p.tt.Bool(ok)}
		}
		return v
	case token.NOT:
		return p.tt.Not(x.(*Term))
	case token.SUB:
		switch x := x.(type) {
		case *Term:
			return p.tt.Neg(x)
		case float64:
			return -x
		}
	case token.XOR:
		return p.tt.Not(x.(*Term))
	}
	panic(p.unsupported(fmt.Sprintf("unop %v on %T", instr.Op, x)))
}

func (p *Path) binop(op token.Token, t types.Type, x, y value) value {
	switch op {
	case token.EQL:
		return p.equals(t, x, y)
	case token.NEQ:
		return p.tt.Not(p.equals(t, x, y))
	}
	switch a := x.(type) {
	case *Term:
		b, ok := y.(*Term)
		if !ok {
			break
		}
		_, signed, _ := widthOf(t)
		return p.intBinop(op, signed, a, b)
	case float64:
		b := y.(float64)
		if bt, ok := t.Underlying().(*types.Basic); ok && bt.Kind() == types.Float32 {
			switch op {
			case token.ADD:
				return float64(float32(a) + float32(b))
			case token.SUB:
				return float64(float32(a) - float32(b))
			case token.MUL:
				return float64(float32(a) * float32(b))
			case token.QUO:
				return float64(float32(a) / float32(b))
			}
		}
		switch op {
		case token.ADD:
			return a + b
		case token.SUB:
			return a - b
		case token.MUL:
			return a * b
		case token.QUO:
			return a / b
		case token.LSS:
			return p.tt.Bool(a < b)
		case token.LEQ:
			return p.tt.Bool(a <= b)
		case token.GTR:
			return p.tt.Bool(a > b)
		case token.GEQ:
			return p.tt.Bool(a >= b)
		}
	case string:
		if b, ok := y.(string); ok {
			switch op {
			case token.ADD:
				return a + b
			case token.LSS:
				return p.tt.Bool(a < b)
			case token.LEQ:
				return p.tt.Bool(a <= b)
			case token.GTR:
				return p.tt.Bool(a > b)
			case token.GEQ:
				return p.tt.Bool(a >= b)
			}
		}
		if op == token.ADD {
			return p.normStr(append(append([]value{}, p.strBytes(x)...), p.strBytes(y)...))
		}
	case *symStr:
		if op == token.ADD {
			return p.normStr(append(append([]value{}, p.strBytes(x)...), p.strBytes(y)...))
		}
	}
	panic(p.unsupported(fmt.Sprintf("binop %v on %T, %T", op, x, y)))
}

func (p *Path) intBinop(op token.Token, signed bool, a, b *Term) value {
	tt := p.tt
	switch op {
	case token.SHL, token.SHR:
		// shift count may have a different width; Go: count >= width gives 0 (or sign fill)
		var cnt *Term
		if b.w == a.w {
			cnt = b
		} else if b.w < a.w {
			cnt = tt.Zext(b, a.w)
		} else {
			// saturate
			big := tt.Cmp(OpUle, tt.Const(b.w, uint64(a.w)), b)
			cnt = tt.Ite(big, tt.Const(a.w, uint64(a.w)), tt.Extract(b, a.w-1, 0))
		}
		if op == token.SHL {
			return tt.Bin(OpShl, a, cnt)
		}
		if signed {
			return tt.Bin(OpAshr, a, cnt)
		}
		return tt.Bin(OpLshr, a, cnt)
	}
	if a.w != b.w {
		panic(p.unsupported(fmt.Sprintf("binop %v width mismatch %d/%d", op, a.w, b.w)))
	}
	if a.w == 0 {
		switch op {
		case token.AND, token.LAND:
			return tt.BAnd(a, b)
		case token.OR, token.LOR:
			return tt.BOr(a, b)
		}
		panic(p.unsupported("bool binop " + op.String()))
	}
	switch op {
	case token.ADD:
		return tt.Bin(OpAdd, a, b)
	case token.SUB:
		return tt.Bin(OpSub, a, b)
	case token.MUL:
		return tt.Bin(OpMul, a, b)
	case token.QUO, token.REM:
		nz := tt.Not(tt.Eq(b, tt.Const(b.w, 0)))
		if !p.branch(nz) {
			panic(p.rtPanic("integer divide by zero"))
		}
		if op == token.QUO {
			if signed {
				return tt.Bin(OpSDiv, a, b)
			}
			return tt.Bin(OpUDiv, a, b)
		}
		if signed {
			return tt.Bin(OpSRem, a, b)
		}
		return tt.Bin(OpURem, a, b)
	case token.AND:
		return tt.Bin(OpAnd, a, b)
	case token.OR:
		return tt.Bin(OpOr, a, b)
	case token.XOR:
		return tt.Bin(OpXor, a, b)
	case token.AND_NOT:
		return tt.Bin(OpAnd, a, tt.Not(b))
	case token.LSS:
		if signed {
			return tt.Cmp(OpSlt, a, b)
		}
		return tt.Cmp(OpUlt, a, b)
	case token.LEQ:
		if signed {
			return tt.Cmp(OpSle, a, b)
		}
		return tt.Cmp(OpUle, a, b)
	case token.GTR:
		if signed {
			return tt.Cmp(OpSlt, b, a)
		}
		return tt.Cmp(OpUlt, b, a)
	case token.GEQ:
		if signed {
			return tt.Cmp(OpSle, b, a)
		}
		return tt.Cmp(OpUle, b, a)
	}
	panic(p.unsupported("int binop " + op.String()))
}

// equals returns a Bool term for x == y at static type t.
func (p *Path) equals(t types.Type, x, y value) *Term {
	tt := p.tt
	switch a := x.(type) {
	case *Term:
		b, ok := y.(*Term)
		if !ok {
			panic(p.unsupported(fmt.Sprintf("equals Term vs %T", y)))
		}
		return tt.Eq(a, b)
	case float64:
		return tt.Bool(a == y.(float64))
	case string, *symStr:
		ab := p.strBytes(x)
		switch y.(type) {
		case string, *symStr:
		default:
			panic(p.unsupported(fmt.Sprintf("equals string vs %T", y)))
		}
		if as, ok := x.(string); ok {
			if bs, ok := y.(string); ok {
				return tt.Bool(as == bs)
			}
		}
		bb := p.strBytes(y)
		if len(ab) != len(bb) {
			return tt.fls
		}
		r := tt.tru
		for i := range ab {
			r = tt.BAnd(r, tt.Eq(ab[i].(*Term), bb[i].(*Term)))
		}
		return r
	case *value:
		switch b := y.(type) {
		case *value:
			return tt.Bool(a == b)
		case nil:
			return tt.Bool(a == nil)
		case *eptr:
			return tt.Bool(a == nil && b == nil)
		}
	case *eptr:
		switch b := y.(type) {
		case *eptr:
			if a == nil || b == nil {
				return tt.Bool(a == b)
			}
			if a.abs != b.abs || (len(a.back) > 0 && len(b.back) > 0 && &a.back[0] != &b.back[0]) {
				return tt.fls
			}
			return tt.Eq(a.idx, b.idx)
		case *value:
			return tt.Bool(a == nil && b == nil)
		case nil:
			return tt.Bool(a == nil)
		}
	case nil:
		switch b := y.(type) {
		case nil:
			return tt.tru
		case *value:
			return tt.Bool(b == nil)
		case *ssa.Function:
			return tt.Bool(b == nil)
		case *closure:
			return tt.Bool(b == nil)
		case *sliceV:
			return tt.Bool(b.isNil())
		case *mapV:
			return tt.Bool(b == nil)
		case *chanV:
			return tt.Bool(b == nil)
		case iface:
			return tt.Bool(b.t == nil && b.v == nil)
		}
	case *ssa.Function:
		if y == nil {
			return tt.Bool(a == nil)
		}
	case *closure:
		if y == nil {
			return tt.Bool(a == nil)
		}
	case *nativeFn:
		if y == nil {
			return tt.Bool(a == nil)
		}
	case *sliceV:
		// only comparison with nil is legal
		if b, ok := y.(*sliceV); ok && b.isNil() {
			return tt.Bool(a.isNil())
		}
		if y == nil {
			return tt.Bool(a.isNil())
		}
		if a.isNil() {
			if b, ok := y.(*sliceV); ok {
				return tt.Bool(b.isNil())
			}
		}
	case *mapV:
		switch b := y.(type) {
		case *mapV:
			return tt.Bool(a == b)
		case nil:
			return tt.Bool(a == nil)
		}
	case *chanV:
		switch b := y.(type) {
		case *chanV:
			return tt.Bool(a == b)
		case nil:
			return tt.Bool(a == nil)
		}
	case iface:
		b, ok := y.(iface)
		if !ok {
			if y == nil {
				return tt.Bool(a.t == nil && a.v == nil)
			}
			panic(p.unsupported(fmt.Sprintf("equals iface vs %T", y)))
		}
		if a.t == nil || b.t == nil {
			// model objects have nil t but non-nil v
			if a.v != nil || b.v != nil {
				return tt.Bool(a.v == b.v && a.t == nil && b.t == nil)
			}
			return tt.Bool(a.t == nil && b.t == nil)
		}
		if !types.Identical(a.t, b.t) {
			return tt.fls
		}
		return p.equals(a.t, a.v, b.v)
	case structure:
		b := y.(structure)
		st := t.Underlying().(*types.Struct)
		r := tt.tru
		for i := range a {
			if st.Field(i).Name() == "_" {
				continue
			}
			r = tt.BAnd(r, p.equals(st.Field(i).Type(), a[i], b[i]))
		}
		return r
	case array:
		b := y.(array)
		et := t.Underlying().(*types.Array).Elem()
		r := tt.tru
		for i := range a {
			r = tt.BAnd(r, p.equals(et, a[i], b[i]))
		}
		return r
	case *aeadModel:
		return tt.Bool(x == y)
	}
	panic(p.unsupported(fmt.Sprintf("equals on %T vs %T (type %v)", x, y, t)))
}

func (p *Path) conv(tdst, tsrc types.Type, x value) value {
	ud := tdst.Underlying()
	us := tsrc.Underlying()
	switch us := us.(type) {
	case *types.Pointer:
		switch ud := ud.(type) {
		case *types.Basic:
			if ud.Kind() == types.UnsafePointer {
				return x
			}
		case *types.Pointer:
			return x
		}
	case *types.Slice:
		// []byte/[]rune -> string
		if isString(ud) {
			s := x.(*sliceV)
			eb, ok := us.Elem().Underlying().(*types.Basic)
			if ok && eb.Kind() == types.Uint8 {
				return p.normStr(p.elems(s, "string(bytes)"))
			}
			if ok && eb.Kind() == types.Int32 {
				var sb strings.Builder
				for _, e := range p.elems(s, "string(runes)") {
					r, okc := concInt(e)
					if !okc {
						panic(p.unsupported("string of symbolic runes"))
					}
					sb.WriteRune(rune(r))
				}
				return sb.String()
			}
		}
		if _, ok := ud.(*types.Slice); ok {
			return x
		}
	case *types.Basic:
		if us.Kind() == types.UnsafePointer {
			return x
		}
		if isString(us) {
			if ds, ok := ud.(*types.Slice); ok {
				eb := ds.Elem().Underlying().(*types.Basic)
				if eb.Kind() == types.Uint8 {
					return p.bytesToSlice(p.strBytes(x))
				}
				if eb.Kind() == types.Int32 {
					s, ok := x.(string)
					if !ok {
						panic(p.unsupported("[]rune of symbolic string"))
					}
					var rs []value
					for _, r := range s {
						rs = append(rs, p.tt.Const(32, uint64(r)))
					}
					return p.bytesToSlice(rs)
				}
			}
			if isString(ud) {
				return x
			}
		}
		if w, signed, ok := widthOf(us); ok && w > 0 {
			t := x.(*Term)
			if dw, _, ok := widthOf(ud); ok && dw > 0 {
				if dw == w {
					return t
				}
				if dw < w {
					return p.tt.Extract(t, dw-1, 0)
				}
				if signed {
					return p.tt.Sext(t, dw)
				}
				return p.tt.Zext(t, dw)
			}
			if isFloat(ud) {
				c, okc := conc(t)
				if !okc {
					panic(p.unsupported("symbolic int to float conversion"))
				}
				var f float64
				if signed {
					f = float64(sext64(c, w))
				} else {
					f = float64(c)
				}
				if ud.(*types.Basic).Kind() == types.Float32 {
					f = float64(float32(f))
				}
				return f
			}
			if isString(ud) {
				c, okc := conc(t)
				if !okc {
					panic(p.unsupported("string(symbolic int)"))
				}
				return string(rune(sext64(c, w)))
			}
			if b, ok := ud.(*types.Basic); ok && b.Kind() == types.UnsafePointer {
				panic(p.unsupported("uintptr to unsafe.Pointer"))
			}
		}
		if isFloat(us) {
			f := x.(float64)
			if dw, signed, ok := widthOf(ud); ok && dw > 0 {
				if signed {
					return p.tt.Const(dw, uint64(int64(f)))
				}
				if f < 0 {
					return p.tt.Const(dw, uint64(int64(f)))
				}
				if f >= math.Exp2(63) {
					return p.tt.Const(dw, uint64(f))
				}
				return p.tt.Const(dw, uint64(int64(f)))
			}
			if isFloat(ud) {
				if ud.(*types.Basic).Kind() == types.Float32 {
					return float64(float32(f))
				}
				return f
			}
		}
	}
	panic(p.unsupported(fmt.Sprintf("conversion %v -> %v (%T)", tsrc, tdst, x)))
}

// ---- builtins ----

func (p *Path) callBuiltin(caller *frame, fn *ssa.Builtin, args []value) value {
	switch fn.Name() {
	case "append":
		if len(args) == 1 {
			return args[0]
		}
		var et types.Type
		if caller != nil {
			if c, ok := caller.curInstr.(*ssa.Call); ok {
				if st, ok := c.Type().Underlying().(*types.Slice); ok {
					et = st.Elem()
				}
			}
		}
		if et == nil {
			et = types.Typ[types.Uint8]
		}
		return p.appendOp(args[0], args[1], et)
	case "copy":
		return p.copyOp(args[0], args[1])
	case "close":
		p.chanClose(args[0].(*chanV))
		return nil
	case "delete":
		m := args[0].(*mapV)
		if m != nil {
			p.mapDelete(m, args[1])
		}
		return nil
	case "print", "println":
		return nil
	case "len":
		switch x := args[0].(type) {
		case string:
			return p.i64(int64(len(x)))
		case *symStr:
			return p.i64(int64(len(x.b)))
		case array:
			return p.i64(int64(len(x)))
		case *value:
			if x == nil {
				return p.i64(0)
			}
			return p.i64(int64(len((*x).(array))))
		case *sliceV:
			return x.len
		case *mapV:
			return p.i64(int64(p.mapLen(x)))
		case *chanV:
			if x == nil {
				return p.i64(0)
			}
			return p.i64(int64(len(x.buf)))
		}
	case "cap":
		switch x := args[0].(type) {
		case array:
			return p.i64(int64(len(x)))
		case *value:
			return p.i64(int64(len((*x).(array))))
		case *sliceV:
			return x.cap
		case *chanV:
			return p.i64(int64(x.cap))
		}
	case "min", "max":
		r := args[0]
		for _, a := range args[1:] {
			switch x := r.(type) {
			case *Term:
				y := a.(*Term)
				signed := true
				if caller != nil {
					if c, ok := caller.curInstr.(*ssa.Call); ok {
						_, signed, _ = widthOf(c.Type())
					}
				}
				var lt *Term
				if signed {
					lt = p.tt.Cmp(OpSlt, x, y)
				} else {
					lt = p.tt.Cmp(OpUlt, x, y)
				}
				if fn.Name() == "min" {
					r = p.tt.Ite(lt, x, y)
				} else {
					r = p.tt.Ite(lt, y, x)
				}
			case float64:
				if fn.Name() == "min" {
					r = math.Min(x, a.(float64))
				} else {
					r = math.Max(x, a.(float64))
				}
			default:
				panic(p.unsupported("min/max on non-numeric"))
			}
		}
		return r
	case "panic":
		panic(targetPanic{args[0]})
	case "recover":
		return p.doRecover(caller)
	case "ssa:wrapnilchk":
		recv := args[0]
		if isNilPtr(recv) {
			panic(p.rtPanic("value method called using nil pointer"))
		}
		return recv
	case "clear":
		switch x := args[0].(type) {
		case *mapV:
			if x != nil {
				for i := range x.alive {
					x.alive[i] = false
				}
			}
			return nil
		}
	}
	panic(p.unsupported("builtin " + fn.Name()))
}

func (p *Path) doRecover(caller *frame) value {
	// recover() is effective only when called directly by a deferred function of a panicking frame
	if caller == nil || caller.caller == nil {
		return iface{}
	}
	fr := caller.caller
	if fr.panicking {
		fr.panicking = false
		tp, ok := fr.panicVal.(targetPanic)
		if !ok {
			return iface{}
		}
		if v, ok := tp.v.(iface); ok {
			if v.t == nil && v.v == nil {
				return iface{t: types.Typ[types.String], v: "panic(nil)"}
			}
			if v.t == nil {
				// runtime error model: give it a printable dynamic form
				return iface{t: nil, v: v.v}
			}
			return v
		}
		return iface{t: types.Typ[types.String], v: valStr(tp.v)}
	}
	return iface{}
}
