package main

// Loading (/repo + overlay), SSA construction, path exploration with a worker pool, JSON result.

import (
	"encoding/json"
	"flag"
	"fmt"
	"os"
	"path/filepath"
	"runtime"
	"runtime/debug"
	"sort"
	"strings"
	"sync"
	"sync/atomic"
	"time"

	"golang.org/x/tools/go/packages"
	"golang.org/x/tools/go/ssa"
	"golang.org/x/tools/go/ssa/ssautil"
)

type Engine struct {
	prog          *ssa.Program
	harness       *ssa.Function
	tier          int
	params        map[string]int
	portfolio     []string
	assertTimeout time.Duration
	feasTimeoutMs int
	maxSteps      int
	maxPaths      int
	deadline      time.Duration
	stopped       atomic.Bool
	workers       int
	mainSolver    string
	skipInitPkgs  map[string]bool
	verbose       bool
	pin           map[string]uint64
	pinCtl        []int
	randSeed      uint64
}

func (e *Engine) skipInit(path string) bool {
	if e.skipInitPkgs[path] {
		return true
	}
	return false
}

func (e *Engine) threadExit(p *Path) {}

type crashRec struct {
	msg   string
	where string
}

type RunSummary struct {
	Harness       string            `json:"harness"`
	Tier          string            `json:"tier"`
	Paths         int               `json:"paths"`
	PathsOK       int               `json:"paths_ok"`
	Infeasible    int               `json:"paths_infeasible"`
	Unsupported   []string          `json:"unsupported"`
	Budget        int               `json:"paths_budget_exhausted"`
	Steps         int               `json:"ssa_instructions"`
	Asserts       int               `json:"assertion_queries"`
	AssertsOK     int               `json:"assertions_unsat"`
	AssertUnknown []string          `json:"assertions_unknown"`
	Violations    []Violation       `json:"violations"`
	Reached       []string          `json:"reached"`
	Funcs         []string          `json:"functions_encoded"`
	Solver        map[string]interface{} `json:"solver"`
	WallS         float64           `json:"wall_s"`
	LoadS         float64           `json:"load_s"`
	Samples       []json.RawMessage `json:"samples"`
	SchedPoints   int               `json:"sched_decisions"`
	Truncated     bool              `json:"truncated"`
	DeadlineHit   bool              `json:"deadline_hit"`
	FeasUnknown   int               `json:"feasibility_unknown_kept"`
	Params        map[string]int    `json:"params"`
}

func loadProgram(repo, overlayDir string, pkgs []string) (*ssa.Program, []*packages.Package, error) {
	overlay := map[string][]byte{}
	if overlayDir != "" {
		err := filepath.Walk(overlayDir, func(path string, info os.FileInfo, err error) error {
			if err != nil || info.IsDir() || !strings.HasSuffix(path, ".go") {
				return err
			}
			rel, _ := filepath.Rel(overlayDir, path)
			dir := filepath.Dir(rel)
			base := filepath.Base(rel)
			if strings.HasSuffix(base, "_native.go") || strings.HasSuffix(base, "_test.go") {
				return nil
			}
			dst := filepath.Join(repo, dir, "zz_verif_"+base)
			b, err := os.ReadFile(path)
			if err != nil {
				return err
			}
			overlay[dst] = b
			return nil
		})
		if err != nil {
			return nil, nil, err
		}
	}
	cfg := &packages.Config{
		Mode:    packages.LoadAllSyntax,
		Dir:     repo,
		Overlay: overlay,
		Env:     append(os.Environ(), "GOFLAGS=-mod=mod", "GOPROXY=off"),
	}
	initial, err := packages.Load(cfg, pkgs...)
	if err != nil {
		return nil, nil, err
	}
	if n := packages.PrintErrors(initial); n > 0 {
		return nil, nil, fmt.Errorf("%d package errors", n)
	}
	prog, _ := ssautil.AllPackages(initial, ssa.InstantiateGenerics)
	prog.Build()
	return prog, initial, nil
}

func (e *Engine) newPath(prefix []int) *Path {
	p := &Path{
		eng:          e,
		tt:           NewTermTable(),
		prefix:       prefix,
		nameCnt:      map[string]int{},
		globals:      map[*ssa.Global]*value{},
		inited:       map[*ssa.Package]bool{},
		maxSteps:     e.maxSteps,
		pools:        map[*value][]value{},
		locks:        map[*value]*lockState{},
		conds:        map[*value]*condState{},
		syncMaps:     map[*value]*mapV{},
		wgs:          map[*value]int{},
		timerCells:   map[*value]*timerRec{},
		redirect:     map[string]*ssa.Function{},
		redirectVals: map[string]value{},
		concLimit:    64,
		symIdx:       map[string]int{},
		symMemo:      map[int][]int{},
		maxPreempt:   0,
	}
	if e.pin != nil {
		p.pin = e.pin
		p.pinCtl = e.pinCtl
	}
	p.pr = NewPrinter(p.tt)
	p.clock = p.tt.Const(64, 1000000000)
	p.res.Reached = map[string]bool{}
	p.res.Funcs = map[string]bool{}
	return p
}

// runPath executes one path on the given solver.
func (e *Engine) runPath(sol *Solver, prefix []int) (res PathResult) {
	p := e.newPath(prefix)
	p.sol = sol
	sol.Send("(push 1)\n")
	main := p.newThread("main")
	main.isMain = true
	p.cur = main
	defer func() {
		r := recover()
		p.killAll()
		sol.Send("(pop 1)\n")
		p.res.Decisions = p.dec
		p.res.Steps = p.steps
		switch x := r.(type) {
		case nil:
			p.res.Status = "ok"
		case abortPath:
			switch x.kind {
			case "infeasible":
				p.res.Status = "infeasible"
			case "stop":
				p.res.Status = "ok"
			case "budget":
				p.res.Status = "budget"
			default:
				p.res.Status = "unsupported"
			}
			p.res.Msg = x.msg
		case targetPanic:
			// uncaught panic on the main thread
			p.res.Status = "ok"
			p.reportViolationSafe("panic", "uncaught panic: "+x.String())
		case killThread:
			p.res.Status = "ok"
		default:
			p.res.Status = "unsupported"
			p.res.Msg = fmt.Sprintf("engine panic: %v at %s\n%s", r, p.where(), string(debug.Stack()))
		}
		if len(p.res.Violations) > 0 && p.res.Status == "ok" {
			p.res.Status = "violation"
		}
		res = p.res
	}()
	p.call(nil, e.harness, nil)
	// harness returned: crash of another thread that main never observed?
	if p.crash != nil && !p.crashReported {
		p.crashReported = true
		p.reportViolationSafe("panic", p.crash.msg+" at "+p.crash.where)
	}
	if p.pendingAbort != nil {
		panic(*p.pendingAbort)
	}
	if lk := p.leakedLock(); lk != "" {
		p.reportViolationSafe("lockleak", "mutex wedged at the end of the path: "+lk)
	}
	return
}

func (p *Path) reportViolationSafe(kind, msg string) {
	defer func() { recover() }()
	var m map[string]uint64
	func() {
		defer func() { recover() }()
		m = p.modelOrNil()
	}()
	p.reportViolation(kind, msg, "", m)
}

type workItem struct {
	prefix []int
}

func (e *Engine) explore() *RunSummary {
	sum := &RunSummary{Params: e.params}
	var mu sync.Mutex
	cond := sync.NewCond(&mu)
	queue := []workItem{{nil}}
	active := 0
	funcs := map[string]bool{}
	reached := map[string]bool{}
	stop := false
	e.stopped.Store(false)
	t0 := time.Now()
	var wg sync.WaitGroup
	for w := 0; w < e.workers; w++ {
		wg.Add(1)
		go func(w int) {
			defer wg.Done()
			sol, err := StartSolver(e.mainSolver, e.feasTimeoutMs)
			if err != nil {
				fmt.Fprintln(os.Stderr, "cannot start solver:", err)
				return
			}
			defer sol.Close()
			for {
				mu.Lock()
				for len(queue) == 0 && active > 0 && !stop {
					cond.Wait()
				}
				if stop || (len(queue) == 0 && active == 0) {
					mu.Unlock()
					cond.Broadcast()
					return
				}
				it := queue[len(queue)-1]
				queue = queue[:len(queue)-1]
				active++
				mu.Unlock()

				if sol.dead {
					sol.Close()
					sol, _ = StartSolver(e.mainSolver, e.feasTimeoutMs)
				}
				res := e.runPath(sol, it.prefix)

				mu.Lock()
				active--
				sum.Paths++
				sum.Steps += res.Steps
				sum.Asserts += res.Asserts
				sum.AssertsOK += res.AssertsOK
				sum.SchedPoints += res.SchedPoints
				sum.FeasUnknown += res.Unknowns
				sum.AssertUnknown = append(sum.AssertUnknown, res.AssertUnknown...)
				for f := range res.Funcs {
					funcs[f] = true
				}
				for l := range res.Reached {
					reached[l] = true
				}
				switch res.Status {
				case "ok":
					sum.PathsOK++
				case "violation":
					sum.PathsOK++
					sum.Violations = append(sum.Violations, res.Violations...)
				case "infeasible":
					sum.Infeasible++
				case "budget":
					sum.Budget++
				default:
					if len(sum.Unsupported) < 20 {
						sum.Unsupported = append(sum.Unsupported, res.Msg)
					}
				}
				if len(sum.Samples) < 5 && (res.Status == "ok" || res.Status == "violation") {
					s, _ := json.Marshal(map[string]interface{}{"decisions": res.Decisions, "status": res.Status, "steps": res.Steps, "observes": res.Observes, "asserts_discharged": res.AssertsOK})
					sum.Samples = append(sum.Samples, s)
				}
				for _, f := range res.Forks {
					queue = append(queue, workItem{f})
				}
				if e.verbose {
					fmt.Fprintf(os.Stderr, "[w%d] path %d %s dec=%v steps=%d %s\n", w, sum.Paths, res.Status, res.Decisions, res.Steps, res.Msg)
				}
				if sum.Paths+len(queue) > e.maxPaths && sum.Paths >= e.maxPaths {
					sum.Truncated = true
					stop = true
				}
				unknownViol := 0
				for _, v := range sum.Violations {
					if v.Known == "" {
						unknownViol++
					}
				}
				if len(sum.Unsupported) > 0 || unknownViol >= 3 || len(sum.Violations) >= 40 {
					stop = true
				}
				if e.deadline > 0 && time.Since(t0) > e.deadline {
					sum.Truncated = true
					sum.DeadlineHit = true
					stop = true
				}
				if stop {
					e.stopped.Store(true)
				}
				mu.Unlock()
				cond.Broadcast()
			}
		}(w)
	}
	wg.Wait()
	sum.WallS = time.Since(t0).Seconds()
	for f := range funcs {
		sum.Funcs = append(sum.Funcs, f)
	}
	sort.Strings(sum.Funcs)
	for l := range reached {
		sum.Reached = append(sum.Reached, l)
	}
	sort.Strings(sum.Reached)
	gStats.mu.Lock()
	sum.Solver = map[string]interface{}{"sat": gStats.Sat, "unsat": gStats.Unsat, "unknown": gStats.Unknown, "error": gStats.Errors, "queries": gStats.Queries, "time_s": gStats.TimeS}
	gStats.mu.Unlock()
	if len(queue) > 0 && !stop {
		sum.Truncated = true
	}
	if stop && len(queue) > 0 && len(sum.Unsupported) == 0 && len(sum.Violations) == 0 {
		sum.Truncated = true
	}
	return sum
}

func main() {
	repo := flag.String("repo", "/repo", "repository root")
	overlay := flag.String("overlay", "/verif/harness", "harness overlay tree")
	pkg := flag.String("pkg", "", "package path of the harness")
	fn := flag.String("func", "", "harness function name")
	tier := flag.String("tier", "quick", "quick|thorough")
	workers := flag.Int("workers", runtime.NumCPU(), "worker count")
	out := flag.String("out", "", "result JSON file")
	maxSteps := flag.Int("maxsteps", 2000000, "SSA instruction budget per path")
	maxPaths := flag.Int("maxpaths", 200000, "path budget")
	deadlineS := flag.Int("deadline", 900, "wall-clock budget per harness run in seconds (exceeding it makes the run incomplete)")
	solver := flag.String("solver", "z3", "main incremental solver")
	feasMs := flag.Int("feas-ms", 10000, "timeout per query on the main solver (ms)")
	assertS := flag.Int("assert-s", 60, "timeout per portfolio query (s)")
	verbose := flag.Bool("v", false, "verbose")
	prefixS := flag.String("prefix", "", "run a single path with this decision prefix (comma separated)")
	paramS := flag.String("params", "", "name=int,... harness parameters")
	validateN := flag.Int("validate", 0, "translator validation: concrete runs for seeds 1..N with pseudo-random inputs")
	pinFile := flag.String("pin", "", "concrete replay: JSON {model, picks}; inputs pinned, control decisions followed")
	flag.Parse()

	e := &Engine{params: map[string]int{}, portfolio: []string{"cvc5-int", "z3-new", "cvc5"}, assertTimeout: time.Duration(*assertS) * time.Second,
		feasTimeoutMs: *feasMs, maxSteps: *maxSteps, maxPaths: *maxPaths, workers: *workers, mainSolver: *solver, verbose: *verbose,
		deadline: time.Duration(*deadlineS) * time.Second,
		skipInitPkgs: map[string]bool{"crypto/rand": true, "runtime": true, "os": true, "syscall": true, "net": true, "net/http": true,
			"crypto/tls": true, "github.com/sirupsen/logrus": true, "go.etcd.io/bbolt": true, "reflect": true, "internal/godebug": true,
			"crypto/internal/fips140": true, "github.com/refraction-networking/utls": true, "github.com/gorilla/websocket": true, "github.com/gorilla/mux": true,
			"encoding/json": true, "fmt": true, "log": true, "math/rand/v2": true, "math/rand": true, "sync": true, "internal/poll": true, "crypto/aes": true, "crypto/cipher": true}}
	if *tier == "thorough" {
		e.tier = 1
	}
	for _, kv := range strings.Split(*paramS, ",") {
		if kv == "" {
			continue
		}
		var k string
		var v int
		parts := strings.SplitN(kv, "=", 2)
		k = parts[0]
		fmt.Sscanf(parts[1], "%d", &v)
		e.params[k] = v
	}
	t0 := time.Now()
	prog, _, err := loadProgram(*repo, *overlay, []string{*pkg})
	if err != nil {
		fmt.Fprintln(os.Stderr, "load error:", err)
		os.Exit(2)
	}
	e.prog = prog
	var hp *ssa.Package
	for _, p := range prog.AllPackages() {
		if p.Pkg.Path() == *pkg {
			hp = p
		}
	}
	if hp == nil {
		fmt.Fprintln(os.Stderr, "harness package not found:", *pkg)
		os.Exit(2)
	}
	e.harness = hp.Func(strings.SplitN(strings.SplitN(*fn, ";", 2)[0], ":", 2)[0])
	if e.harness == nil {
		fmt.Fprintln(os.Stderr, "harness function not found:", *fn)
		os.Exit(2)
	}
	loadS := time.Since(t0).Seconds()

	var sum *RunSummary
	if *pinFile != "" {
		var rp struct {
			Model map[string]uint64 `json:"model"`
			Picks []int             `json:"picks"`
		}
		b, err := os.ReadFile(*pinFile)
		if err != nil {
			fmt.Fprintln(os.Stderr, err)
			os.Exit(2)
		}
		json.Unmarshal(b, &rp)
		if rp.Model == nil {
			rp.Model = map[string]uint64{}
		}
		e.pin = rp.Model
		e.pinCtl = rp.Picks
	}
	if first := strings.SplitN(strings.SplitN(*fn, ";", 2)[0], ":", 2); len(first) > 1 {
		for _, kv := range strings.Split(first[1], ",") {
			if ps := strings.SplitN(kv, "=", 2); len(ps) == 2 {
				var v int
				fmt.Sscanf(ps[1], "%d", &v)
				e.params[ps[0]] = v
			}
		}
	}
	if *validateN > 0 {
		// translator validation: run each harness concretely for seeds 1..N with pseudo-random inputs and print
		// what happened (compared by bin/vcheck with the native build's run on the same seeds)
		type vres struct {
			Func     string   `json:"func"`
			Seed     int      `json:"seed"`
			Status   string   `json:"status"`
			Failures []string `json:"failures"`
			Observes []string `json:"observes"`
			Reached  []string `json:"reached"`
		}
		var out []vres
		sol, err := StartSolver(e.mainSolver, e.feasTimeoutMs)
		if err != nil {
			fmt.Fprintln(os.Stderr, err)
			os.Exit(2)
		}
		for _, run := range strings.Split(*fn, ";") {
			parts := strings.SplitN(run, ":", 2)
			e.harness = hp.Func(parts[0])
			if e.harness == nil {
				fmt.Fprintln(os.Stderr, "harness function not found:", parts[0])
				os.Exit(2)
			}
			e.params = map[string]int{}
			if len(parts) > 1 {
				for _, kv := range strings.Split(parts[1], ",") {
					if ps := strings.SplitN(kv, "=", 2); len(ps) == 2 {
						var v int
						fmt.Sscanf(ps[1], "%d", &v)
						e.params[ps[0]] = v
					}
				}
			}
			for s := 1; s <= *validateN; s++ {
				e.pin = map[string]uint64{}
				e.pinCtl = nil
				e.randSeed = uint64(s)
				res := e.runPath(sol, nil)
				if sol.dead {
					sol.Close()
					sol, _ = StartSolver(e.mainSolver, e.feasTimeoutMs)
				}
				r := vres{Func: parts[0], Seed: s, Status: res.Status, Observes: res.Observes}
				if res.Status == "unsupported" || res.Status == "budget" {
					r.Status = res.Status + ": " + res.Msg
				}
				for _, v := range res.Violations {
					r.Failures = append(r.Failures, v.Msg)
				}
				for l := range res.Reached {
					r.Reached = append(r.Reached, l)
				}
				sort.Strings(r.Reached)
				out = append(out, r)
			}
		}
		sol.Close()
		b, _ := json.Marshal(out)
		fmt.Println(string(b))
		return
	}
	if *pinFile != "" || *prefixS != "" || os.Getenv("GOSYM_SINGLE") != "" {
		var prefix []int
		for _, s := range strings.Split(*prefixS, ",") {
			if s == "" {
				continue
			}
			var v int
			fmt.Sscanf(s, "%d", &v)
			prefix = append(prefix, v)
		}
		sol, err := StartSolver(e.mainSolver, e.feasTimeoutMs)
		if err != nil {
			fmt.Fprintln(os.Stderr, err)
			os.Exit(2)
		}
		res := e.runPath(sol, prefix)
		sol.Close()
		b, _ := json.MarshalIndent(res, "", " ")
		fmt.Println(string(b))
		return
	}
	// -func may list several runs: "FuncA:n=3,rd=2;FuncB"
	var sums []*RunSummary
	bad := false
	for _, run := range strings.Split(*fn, ";") {
		parts := strings.SplitN(run, ":", 2)
		e.harness = hp.Func(parts[0])
		if e.harness == nil {
			fmt.Fprintln(os.Stderr, "harness function not found:", parts[0])
			os.Exit(2)
		}
		e.params = map[string]int{}
		if len(parts) > 1 {
			for _, kv := range strings.Split(parts[1], ",") {
				if kv == "" {
					continue
				}
				ps := strings.SplitN(kv, "=", 2)
				var v int
				fmt.Sscanf(ps[1], "%d", &v)
				e.params[ps[0]] = v
			}
		}
		gStats = &SolverStats{}
		sum = e.explore()
		sum.Harness = *pkg + "." + parts[0]
		sum.Tier = *tier
		sum.LoadS = loadS
		sums = append(sums, sum)
		fmt.Fprintf(os.Stderr, "%s %v: paths=%d ok=%d infeasible=%d budget=%d unsupported=%d violations=%d asserts=%d/%d unknown=%d wall=%.1fs (load %.1fs)\n",
			sum.Harness, e.params, sum.Paths, sum.PathsOK, sum.Infeasible, sum.Budget, len(sum.Unsupported), len(sum.Violations), sum.AssertsOK, sum.Asserts, len(sum.AssertUnknown), sum.WallS, loadS)
		if len(sum.Unsupported) > 0 {
			fmt.Fprintln(os.Stderr, "UNSUPPORTED:", sum.Unsupported[0])
			bad = true
		}
	}
	b, _ := json.MarshalIndent(sums, "", " ")
	if *out != "" {
		os.WriteFile(*out, b, 0644)
	} else {
		fmt.Println(string(b))
	}
	if bad {
		os.Exit(2)
	}
}
