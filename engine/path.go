package main

// One Path = one re-execution of the harness along a decision prefix.

import (
	"fmt"
	"go/types"
	"os"
	"sort"
	"strings"
	"time"

	"golang.org/x/tools/go/ssa"
)

type abortPath struct {
	kind string // "infeasible", "unsupported", "budget", "done", "stop"
	msg  string
}

type killThread struct{}

type inputVar struct {
	Name string
	W    int
	term *Term
}

type Violation struct {
	Msg      string            `json:"msg"`
	Known    string            `json:"known,omitempty"`
	Model    map[string]uint64 `json:"model"`
	Decision []int             `json:"decisions"`
	Ctl      []int             `json:"picks"`
	Where    string            `json:"where"`
	Kind     string            `json:"kind"` // assert | panic | deadlock
}

type PathResult struct {
	Decisions   []int
	Status      string // ok | infeasible | unsupported | budget | violation
	Msg         string
	Violations  []Violation
	Reached     map[string]bool
	Steps       int
	Forks       [][]int
	Observes    []string
	Unknowns    int
	Funcs       map[string]bool
	AssertsOK   int
	SchedPoints int
	Asserts       int
	AssertUnknown []string
}

type Path struct {
	eng     *Engine
	tt      *TermTable
	pr      *Printer
	sol     *Solver
	prefix  []int
	dec     []int
	pcs     []*Term
	inputs  []inputVar
	nameCnt map[string]int

	globals map[*ssa.Global]*value
	inited  map[*ssa.Package]bool
	initing map[*ssa.Package]bool

	res PathResult

	steps     int
	maxSteps  int
	callDepth int

	// scheduling
	threads     []*Thread
	cur         *Thread
	preemptions int
	maxPreempt  int
	timers      []*timerRec
	clock       *Term // virtual monotonic clock (ns, int64)
	sleepLog    []*Term

	// models
	pools    map[*value][]value
	poolMode int
	locks    map[*value]*lockState
	conds    map[*value]*condState
	syncMaps map[*value]*mapV
	redirect map[string]*ssa.Function
	fresh    int
	aeadSeals []sealRec
	adversary bool
	mapOrderNondet bool
	concLimit int
	stopped   bool

	pin    map[string]uint64
	pinCtl []int
	pinPos int
	ctl    []int

	randEdges bool
	randSmall bool
	symIdx    map[string]int
	symParent []int
	symMemo   map[int][]int
	pcSym     []int
	pcLit     []string

	initingShallow bool
	forceInit      *ssa.Function // the initializer ensureInit is running right now (not to be skipped as a nested one)
	crash          *crashRec
	crashReported  bool
	pendingAbort   *abortPath
	deadlock       bool
	deadlockKnown  string
	noPreempt      int
	selWait        []selWaiter
	wgs            map[*value]int
	timerCells     map[*value]*timerRec
	redirectVals   map[string]value
	sleepHook      func()
	pubs           []pubRec
	dhs            []dhRec
	sleepBlocks    bool
	eagerOffsets   bool
	timedSleep     bool
	randZero       bool
	detSched       bool
	fineFuncs      map[string]bool
	httpServeCalls int
}

type sealRec struct {
	method string
	key    *Term
	nonce  *Term
	n      int
	ct     *Term
	pt     *Term
	adLen  int
	ad     *Term
}

func (p *Path) unsupported(msg string) abortPath {
	where := ""
	if p.cur != nil && p.cur.fr != nil {
		where = " at " + p.cur.fr.where()
	}
	return abortPath{kind: "unsupported", msg: msg + where}
}

// freshVar makes a new named symbolic variable (an input, reported in models).
func (p *Path) freshVar(name string, w int) *Term {
	k := p.nameCnt[name]
	p.nameCnt[name] = k + 1
	full := name
	if k > 0 {
		full = fmt.Sprintf("%s#%d", name, k)
	}
	if p.pin != nil {
		if v, ok := p.pin[full]; ok || p.eng.randSeed == 0 {
			return p.tt.Const(w, v)
		}
		// translator validation: missing draws are pseudo-random, by the same function as the native vapi
		return p.tt.Const(w, seedHash(p.eng.randSeed, full))
	}
	t := p.tt.Var(full, w)
	p.inputs = append(p.inputs, inputVar{full, w, t})
	return t
}

// seedHash: FNV-1a of "seed:name" (the native vapi package computes the same).
func seedHash(seed uint64, name string) uint64 {
	h := uint64(14695981039346656037)
	s := fmt.Sprintf("%d:%s", seed, name)
	for i := 0; i < len(s); i++ {
		h ^= uint64(s[i])
		h *= 1099511628211
	}
	return h
}

// ---- solver plumbing ----

func (p *Path) lit(t *Term) string {
	var sb strings.Builder
	n := p.pr.Emit(&sb, t)
	if sb.Len() > 0 {
		p.sol.Send(sb.String())
	}
	return n
}

func (p *Path) assertPC(t *Term) {
	if t.isConst() {
		if t.val == 0 {
			panic(abortPath{kind: "infeasible", msg: "false path condition"})
		}
		return
	}
	p.addPC(t)
}

// feasible asks whether pc ∧ t is satisfiable. unknown counts as feasible.
func (p *Path) feasible(t *Term) bool {
	if t.isConst() {
		return t.val != 0
	}
	if p.eng.stopped.Load() {
		panic(abortPath{kind: "stop", msg: "exploration stopped"})
	}
	r := p.sol.Check(p.relevantLits(t)...)
	switch r {
	case "unsat":
		return false
	case "sat":
		return true
	case "error":
		panic(abortPath{kind: "unsupported", msg: "solver error on feasibility query"})
	}
	p.res.Unknowns++
	return true
}

// decide records a decision with n alternatives; during replay it follows the prefix.
func (p *Path) decide(n int, forkable []bool) int {
	i := len(p.dec)
	if i < len(p.prefix) {
		c := p.prefix[i]
		p.dec = append(p.dec, c)
		return c
	}
	first := -1
	for c := 0; c < n; c++ {
		if forkable == nil || forkable[c] {
			if first < 0 {
				first = c
			} else {
				alt := make([]int, len(p.dec)+1)
				copy(alt, p.dec)
				alt[len(p.dec)] = c
				p.res.Forks = append(p.res.Forks, alt)
			}
		}
	}
	if first < 0 {
		panic(abortPath{kind: "infeasible", msg: "no feasible alternative"})
	}
	p.dec = append(p.dec, first)
	return first
}

// decideCtl is a control decision (schedule, Pick, pool, select, map order). It is recorded separately so
// that a concrete (pinned) replay can follow the same control choices.
func (p *Path) decideCtl(n int) int {
	if p.pin != nil {
		c := 0
		if p.pinPos < len(p.pinCtl) {
			c = p.pinCtl[p.pinPos]
		} else if p.eng.randSeed != 0 {
			c = int(seedHash(p.eng.randSeed, fmt.Sprintf("ctl#%d", p.pinPos)) % uint64(n))
		}
		p.pinPos++
		if c < 0 || c >= n {
			c = 0
		}
		p.ctl = append(p.ctl, c)
		return c
	}
	c := p.decide(n, nil)
	p.ctl = append(p.ctl, c)
	return c
}

// branch resolves a (possibly symbolic) boolean.
func (p *Path) branch(c *Term) bool {
	if c.isConst() {
		return c.val != 0
	}
	if len(p.dec) < len(p.prefix) {
		ch := p.decide(2, nil)
		if ch == 1 {
			p.assertPC(c)
			return true
		}
		p.assertPC(p.tt.Not(c))
		return false
	}
	ft := p.feasible(c)
	ff := true
	if ft {
		ff = p.feasible(p.tt.Not(c))
	}
	ch := p.decide(2, []bool{ff, ft}) // index 0 = false, 1 = true; prefer... first feasible
	if ch == 1 {
		if ff { // only constrain when it is a real restriction
			p.assertPC(c)
		} else {
			p.pcsNote(c)
		}
		return true
	}
	if ft {
		p.assertPC(p.tt.Not(c))
	} else {
		p.pcsNote(p.tt.Not(c))
	}
	return false
}

// pcsNote records an implied condition (kept for standalone script dumps, not re-asserted).
func (p *Path) pcsNote(t *Term) {}

// choose resolves a symbolic integer to one concrete value by forking over its feasible values (up to limit).
func (p *Path) concretize(t *Term, what string) uint64 {
	if t.isConst() {
		return t.val
	}
	if len(p.dec) < len(p.prefix) {
		// replay: the recorded decision is the index into the sorted feasible values; we stored the value itself
		v := uint64(p.prefix[len(p.dec)])
		p.dec = append(p.dec, int(v))
		p.assertPC(p.tt.Eq(t, p.tt.Const(t.w, v)))
		return v
	}
	// enumerate feasible values
	var vals []uint64
	limit := p.concLimit
	name := p.lit(t)
	rel := p.relevantLits(t)
	rel = rel[:len(rel)-1]
	p.sol.Send("(push 1)\n")
	for len(vals) <= limit {
		r := p.sol.Check(rel...)
		if r != "sat" {
			if r != "unsat" {
				p.sol.Send("(pop 1)\n")
				panic(abortPath{kind: "unsupported", msg: "solver " + r + " while concretising " + what})
			}
			break
		}
		mv := p.sol.GetValues([]string{name})
		s, ok := mv[strings.Trim(name, "|")]
		if !ok {
			for _, x := range mv {
				s = x
			}
		}
		v, ok2 := parseBV(s)
		if !ok2 {
			p.sol.Send("(pop 1)\n")
			panic(abortPath{kind: "unsupported", msg: "cannot parse model value " + s})
		}
		vals = append(vals, v)
		p.sol.Send(fmt.Sprintf("(assert (not (= %s %s)))\n", name, constStr(t.w, v)))
	}
	p.sol.Send("(pop 1)\n")
	if len(vals) > limit {
		panic(abortPath{kind: "unsupported", msg: fmt.Sprintf("symbolic length explosion: more than %d values for %s", limit, what)})
	}
	if len(vals) == 0 {
		panic(abortPath{kind: "infeasible", msg: "no value for " + what})
	}
	sort.Slice(vals, func(i, j int) bool { return vals[i] < vals[j] })
	for _, v := range vals[1:] {
		alt := make([]int, len(p.dec)+1)
		copy(alt, p.dec)
		alt[len(p.dec)] = int(v)
		p.res.Forks = append(p.res.Forks, alt)
	}
	v := vals[0]
	p.dec = append(p.dec, int(v))
	p.assertPC(p.tt.Eq(t, p.tt.Const(t.w, v)))
	return v
}

// script renders the path condition plus extra assertions as a standalone SMT-LIB script.
func (p *Path) script(extra ...*Term) string {
	var sb strings.Builder
	pr := NewPrinter(p.tt)
	for _, c := range p.pcs {
		n := pr.Emit(&sb, c)
		sb.WriteString("(assert " + n + ")\n")
	}
	for _, c := range extra {
		n := pr.Emit(&sb, c)
		sb.WriteString("(assert " + n + ")\n")
	}
	sb.WriteString("(check-sat)\n")
	return sb.String()
}

// checkAssert decides pc ∧ ¬cond. Returns "unsat" (holds), "sat" (model extracted), or "unknown".
func (p *Path) checkAssert(cond *Term) (string, map[string]uint64) {
	neg := p.tt.Not(cond)
	if neg.isConst() {
		if neg.val == 0 {
			return "unsat", nil
		}
		// violated for every value on this path, provided the path condition is satisfiable at all
		switch p.pcSat() {
		case "unsat":
			panic(abortPath{kind: "infeasible", msg: "path condition unsatisfiable (kept after an undecided feasibility query)"})
		case "sat":
			return "sat", p.fullModel(nil)
		}
		return "unknown", nil
	}
	r := p.sol.Check(p.relevantLits(neg)...)
	if r == "sat" {
		return "sat", p.fullModel(neg)
	}
	if r == "unsat" {
		return "unsat", nil
	}
	if r == "error" {
		panic(abortPath{kind: "unsupported", msg: "solver error on assertion query"})
	}
	// portfolio on a standalone script (relevant slice only)
	scr := p.scriptFor(neg)
	if d := os.Getenv("GOSYM_DUMP"); d != "" {
		p.fresh++
		os.WriteFile(fmt.Sprintf("%s/q-%d-%d.smt2", d, os.Getpid(), p.fresh), []byte(scr), 0644)
	}
	// all portfolio solvers at once; the first decisive verdict wins
	type pr struct{ kind, verdict string }
	ch := make(chan pr, len(p.eng.portfolio))
	for _, k := range p.eng.portfolio {
		go func(k string) { ch <- pr{k, OneShot(k, scr, p.eng.assertTimeout)} }(k)
	}
	verdict := "unknown"
	for range p.eng.portfolio {
		r := <-ch
		if r.verdict == "unsat" || r.verdict == "sat" {
			verdict = r.verdict
			break
		}
	}
	if verdict == "sat" {
		return "sat", map[string]uint64{}
	}
	return verdict, nil
}

// pcSat checks every independent component of the path condition.
func (p *Path) pcSat() string {
	comps := map[int][]string{}
	for i := range p.pcs {
		r := p.find(p.pcSym[i])
		comps[r] = append(comps[r], p.pcLit[i])
	}
	res := "sat"
	for _, lits := range comps {
		switch p.sol.Check(lits...) {
		case "unsat":
			return "unsat"
		case "sat":
		default:
			res = "unknown"
		}
	}
	return res
}

// ---- constraint independence: path conditions are kept as assumption literals, grouped by shared symbols ----

func (p *Path) symOf(name string) int {
	if i, ok := p.symIdx[name]; ok {
		return i
	}
	i := len(p.symParent)
	p.symIdx[name] = i
	p.symParent = append(p.symParent, i)
	return i
}

func (p *Path) find(i int) int {
	for p.symParent[i] != i {
		p.symParent[i] = p.symParent[p.symParent[i]]
		i = p.symParent[i]
	}
	return i
}

// syms returns the symbols (variables and UF names) occurring in t.
func (p *Path) syms(t *Term) []int {
	if s, ok := p.symMemo[t.id]; ok {
		return s
	}
	var out []int
	seen := map[int]bool{}
	visited := map[int]bool{}
	var walk func(x *Term)
	walk = func(x *Term) {
		if visited[x.id] {
			return
		}
		visited[x.id] = true
		if s, ok := p.symMemo[x.id]; ok {
			for _, v := range s {
				if !seen[v] {
					seen[v] = true
					out = append(out, v)
				}
			}
			return
		}
		switch x.op {
		case OpVar:
			v := p.symOf("v:" + x.name)
			if !seen[v] {
				seen[v] = true
				out = append(out, v)
			}
		case OpApply:
			v := p.symOf("f:" + x.name)
			if !seen[v] {
				seen[v] = true
				out = append(out, v)
			}
		}
		for _, a := range x.args {
			walk(a)
		}
	}
	walk(t)
	p.symMemo[t.id] = out
	return out
}

func (p *Path) addPC(t *Term) {
	ss := p.syms(t)
	if len(ss) == 0 {
		return
	}
	r := p.find(ss[0])
	for _, v := range ss[1:] {
		r2 := p.find(v)
		if r2 != r {
			p.symParent[r2] = r
		}
	}
	p.pcs = append(p.pcs, t)
	p.pcSym = append(p.pcSym, ss[0])
	p.pcLit = append(p.pcLit, p.lit(t))
}

// relevantLits returns the literals of the path conditions connected to q, followed by q's own literal.
func (p *Path) relevantLits(q *Term) []string {
	var lits []string
	if q != nil {
		roots := map[int]bool{}
		for _, v := range p.syms(q) {
			roots[p.find(v)] = true
		}
		for i := range p.pcs {
			if roots[p.find(p.pcSym[i])] {
				lits = append(lits, p.pcLit[i])
			}
		}
		lits = append(lits, p.lit(q))
	}
	return lits
}

func (p *Path) scriptFor(q *Term) string {
	var sb strings.Builder
	pr := NewPrinter(p.tt)
	roots := map[int]bool{}
	for _, v := range p.syms(q) {
		roots[p.find(v)] = true
	}
	for i, c := range p.pcs {
		if roots[p.find(p.pcSym[i])] {
			n := pr.Emit(&sb, c)
			sb.WriteString("(assert " + n + ")\n")
		}
	}
	n := pr.Emit(&sb, q)
	sb.WriteString("(assert " + n + ")\n(check-sat)\n")
	return sb.String()
}

// fullModel: values of all inputs: the slice of q first (solver is in sat state for it), then every other
// independent component solved on its own.
func (p *Path) fullModel(q *Term) map[string]uint64 {
	m := map[string]uint64{}
	done := map[int]bool{}
	grab := func(roots map[int]bool) {
		var names []string
		for _, iv := range p.inputs {
			if !p.pr.declV[iv.Name] {
				continue
			}
			v := p.symOf("v:" + iv.Name)
			if roots == nil || roots[p.find(v)] {
				names = append(names, "|"+iv.Name+"|")
			}
		}
		for k, s := range p.sol.GetValues(names) {
			if v, ok := parseBV(s); ok {
				m[k] = v
			}
		}
	}
	if q != nil {
		roots := map[int]bool{}
		for _, v := range p.syms(q) {
			r := p.find(v)
			roots[r] = true
			done[r] = true
		}
		grab(roots)
	}
	// remaining components
	comps := map[int][]string{}
	for i := range p.pcs {
		r := p.find(p.pcSym[i])
		if !done[r] {
			comps[r] = append(comps[r], p.pcLit[i])
		}
	}
	for r, lits := range comps {
		if p.sol.Check(lits...) == "sat" {
			grab(map[int]bool{r: true})
		}
	}
	return m
}

func (p *Path) where() string {
	if p.cur != nil && p.cur.fr != nil {
		return p.cur.fr.where()
	}
	return "?"
}

func (p *Path) reportViolation(kind, msg, known string, model map[string]uint64) {
	if kind != "assert" && p.pin == nil {
		// crashes and deadlocks are observed at the end of a path, not decided by a query: make sure the path is
		// feasible at all (it may have been kept after an undecided feasibility query)
		if p.pcSat() == "unsat" {
			panic(abortPath{kind: "infeasible", msg: "path condition unsatisfiable (kept after an undecided feasibility query)"})
		}
	}
	v := Violation{Msg: msg, Known: known, Model: model, Kind: kind, Where: p.where()}
	v.Decision = append([]int(nil), p.dec...)
	v.Ctl = append([]int(nil), p.ctl...)
	p.res.Violations = append(p.res.Violations, v)
}

// ---- types helper ----

func deref(t types.Type) types.Type {
	if pt, ok := t.Underlying().(*types.Pointer); ok {
		return pt.Elem()
	}
	panic("deref of non-pointer " + t.String())
}

var _ = time.Now
