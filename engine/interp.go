package main

// Frame interpreter over go/ssa with the mixed concrete/symbolic value domain.

import (
	"fmt"
	"go/token"
	"go/types"
	"strings"

	"golang.org/x/tools/go/ssa"
)

type deferred struct {
	fn    value
	args  []value
	instr *ssa.Defer
	tail  *deferred
}

type frame struct {
	p         *Path
	caller    *frame
	fn        *ssa.Function
	block     *ssa.BasicBlock
	prevBlock *ssa.BasicBlock
	env       map[ssa.Value]value
	locals    []value
	defers    *deferred
	result    value
	panicking bool
	panicVal  interface{}
	curInstr  ssa.Instruction
}

func (fr *frame) where() string {
	if fr == nil || fr.fn == nil {
		return "?"
	}
	pos := token.NoPos
	if fr.curInstr != nil {
		pos = fr.curInstr.Pos()
	}
	s := fr.fn.String()
	if pos.IsValid() {
		ps := fr.fn.Prog.Fset.Position(pos)
		s += fmt.Sprintf(" (%s:%d)", shortFile(ps.Filename), ps.Line)
	}
	return s
}

func shortFile(f string) string {
	if i := strings.Index(f, "/repo/"); i >= 0 {
		return f[i+6:]
	}
	if i := strings.LastIndex(f, "/src/"); i >= 0 {
		return f[i+5:]
	}
	return f
}

func (fr *frame) stack() string {
	var sb strings.Builder
	for f := fr; f != nil; f = f.caller {
		sb.WriteString("  " + f.where() + "\n")
	}
	return sb.String()
}

func (fr *frame) get(key ssa.Value) value {
	switch key := key.(type) {
	case nil:
		return nil
	case *ssa.Function, *ssa.Builtin:
		return key
	case *ssa.Const:
		return fr.p.constValue(key)
	case *ssa.Global:
		return fr.p.globalAddr(key)
	}
	if r, ok := fr.env[key]; ok {
		return r
	}
	panic(fr.p.unsupported(fmt.Sprintf("get: no value for %T: %v", key, key.Name())))
}

func (p *Path) constValue(c *ssa.Const) value {
	if c.Value == nil {
		return p.zero(c.Type())
	}
	t := c.Type().Underlying()
	if b, ok := t.(*types.Basic); ok {
		if w, signed, ok := widthOf(b); ok {
			if w == 0 {
				return p.tt.Bool(constantBool(c))
			}
			if signed {
				return p.tt.Const(w, uint64(c.Int64()))
			}
			return p.tt.Const(w, c.Uint64())
		}
		if b.Info()&types.IsFloat != 0 {
			return c.Float64()
		}
		if b.Info()&types.IsString != 0 {
			return constantString(c)
		}
		if b.Info()&types.IsComplex != 0 {
			return c.Complex128()
		}
	}
	panic(p.unsupported("const of type " + c.Type().String()))
}

func (p *Path) globalAddr(g *ssa.Global) *value {
	if a, ok := p.globals[g]; ok {
		return a
	}
	p.ensureInit(g.Pkg)
	if a, ok := p.globals[g]; ok {
		return a
	}
	a := new(value)
	*a = p.zero(deref(g.Type()))
	p.globals[g] = a
	return a
}

// ensureInit lazily runs the (shallow) initializer of pkg the first time one of its globals is touched.
func (p *Path) ensureInit(pkg *ssa.Package) {
	if pkg == nil || p.inited[pkg] {
		return
	}
	p.inited[pkg] = true
	// allocate all globals first
	for _, m := range pkg.Members {
		if g, ok := m.(*ssa.Global); ok {
			if _, ok := p.globals[g]; !ok {
				a := new(value)
				*a = p.zero(deref(g.Type()))
				p.globals[g] = a
			}
		}
	}
	path := pkg.Pkg.Path()
	if p.eng.skipInit(path) {
		return
	}
	initFn := pkg.Func("init")
	if initFn == nil || initFn.Blocks == nil {
		return
	}
	saved := p.initingShallow
	p.initingShallow = true
	defer func() { p.initingShallow = saved }()
	p.runInitBody(initFn)
}

// runInitBody executes pkg.init but skips calls to other packages' init functions.
func (p *Path) runInitBody(fn *ssa.Function) {
	var caller *frame
	if p.cur != nil {
		caller = p.cur.fr
	}
	saved := p.forceInit
	p.forceInit = fn
	p.callSSA(caller, fn, nil, nil)
	p.forceInit = saved
}

func constantBool(c *ssa.Const) bool {
	return c.Value.String() == "true"
}

func constantString(c *ssa.Const) string {
	s := c.Value.ExactString()
	// ExactString returns a quoted Go string
	var out string
	if _, err := fmt.Sscanf(s, "%q", &out); err == nil {
		return out
	}
	return strings.Trim(s, "\"")
}

// ---- calls ----

func (p *Path) prepareCall(fr *frame, call *ssa.CallCommon) (fn value, args []value) {
	v := fr.get(call.Value)
	if call.Method == nil {
		fn = v
	} else {
		recv := v.(iface)
		if recv.t == nil && recv.v == nil {
			panic(p.rtPanic("invalid memory address or nil pointer dereference (method call on nil interface)"))
		}
		fn = p.lookupMethod(recv, call.Method)
		args = append(args, recv.v)
	}
	for _, arg := range call.Args {
		args = append(args, fr.get(arg))
	}
	return
}

func (p *Path) lookupMethod(recv iface, meth *types.Func) value {
	switch m := recv.v.(type) {
	case *aeadModel:
		return p.aeadMethod(m, meth.Name())
	case *errModel:
		return &nativeFn{name: "errModel." + meth.Name(), fn: func(p *Path, args []value) value {
			switch meth.Name() {
			case "Error":
				return m.msg
			case "Unwrap":
				if len(m.wrapped) == 0 {
					return iface{}
				}
				return m.wrapped[0]
			}
			panic(p.unsupported("errModel method " + meth.Name()))
		}}
	case *runtimeErr:
		return &nativeFn{name: "runtimeErr." + meth.Name(), fn: func(p *Path, args []value) value {
			return "runtime error: " + m.msg
		}}
	}
	f := p.eng.prog.LookupMethod(recv.t, meth.Pkg(), meth.Name())
	if f == nil {
		panic(p.unsupported(fmt.Sprintf("method %s not found for dynamic type %v", meth.Name(), recv.t)))
	}
	return f
}

func (p *Path) call(caller *frame, fn value, args []value) value {
	switch fn := fn.(type) {
	case *ssa.Function:
		if fn == nil {
			panic(p.rtPanic("call of nil function"))
		}
		return p.callSSA(caller, fn, args, nil)
	case *closure:
		return p.callSSA(caller, fn.fn, args, fn.env)
	case *ssa.Builtin:
		return p.callBuiltin(caller, fn, args)
	case *nativeFn:
		return fn.fn(p, args)
	case nil:
		panic(p.rtPanic("invalid memory address or nil pointer dereference (call of nil func)"))
	}
	panic(p.unsupported(fmt.Sprintf("call of %T", fn)))
}

func (p *Path) callSSA(caller *frame, fn *ssa.Function, args []value, env []value) value {
	name := fn.String()
	if len(p.redirectVals) > 0 {
		if r, ok := p.redirectVals[name]; ok {
			return p.call(caller, r, args)
		}
	}
	if p.initingShallow && fn != p.forceInit && fn.Name() == "init" && fn.Pkg != nil && fn.Signature.Recv() == nil && len(args) == 0 && caller != nil && caller.fn.Name() == "init" && caller.fn.Pkg != fn.Pkg {
		// nested package initializer: handled lazily
		return nil
	}
	if intr, ok := intrinsics[name]; ok {
		return intr(p, caller, fn, args)
	}
	if pk := fn.Package(); pk != nil {
		if h, ok := pkgIntrinsics[pk.Pkg.Path()]; ok {
			if r, handled := h(p, caller, fn, args); handled {
				return r
			}
		}
	} else if fn.Origin() != nil && fn.Origin().Package() != nil {
		if h, ok := pkgIntrinsics[fn.Origin().Package().Pkg.Path()]; ok {
			if r, handled := h(p, caller, fn, args); handled {
				return r
			}
		}
	}
	if fn.Blocks == nil {
		// try origin of generic instantiation / lazily built
		panic(p.unsupported("no body and no intrinsic for " + name))
	}
	p.callDepth++
	if p.callDepth > 400 {
		panic(abortPath{kind: "budget", msg: "call depth exceeded"})
	}
	if p.res.Funcs != nil {
		p.res.Funcs[name] = true
	}
	fr := &frame{p: p, caller: caller, fn: fn}
	fr.env = make(map[ssa.Value]value, 16)
	fr.block = fn.Blocks[0]
	fr.locals = make([]value, len(fn.Locals))
	for i, l := range fn.Locals {
		fr.locals[i] = p.zero(deref(l.Type()))
		fr.env[l] = &fr.locals[i]
	}
	if len(args) != len(fn.Params) {
		panic(p.unsupported(fmt.Sprintf("arity mismatch calling %s: %d args for %d params", name, len(args), len(fn.Params))))
	}
	for i, pr := range fn.Params {
		fr.env[pr] = args[i]
	}
	for i, fv := range fn.FreeVars {
		fr.env[fv] = env[i]
	}
	th := p.cur
	saved := th.fr
	th.fr = fr
	for fr.block != nil {
		p.runFrame(fr)
	}
	th.fr = saved
	p.callDepth--
	return fr.result
}

// runFrame executes fr until return, handling target panics via deferred calls.
func (p *Path) runFrame(fr *frame) {
	defer func() {
		if fr.block == nil {
			return // normal return
		}
		r := recover()
		if r == nil {
			return
		}
		switch r.(type) {
		case targetPanic:
		default:
			panic(r) // engine abort, kill, or Go run-time error in the engine
		}
		fr.panicking = true
		fr.panicVal = r
		p.cur.fr = fr
		fr.runDefers()
		fr.block = fr.fn.Recover
		if fr.block == nil {
			// function has no recover block: result is zero values
			fr.result = p.zeroResults(fr.fn)
		}
	}()
	for {
		for _, instr := range fr.block.Instrs {
			if _, isPhi := instr.(*ssa.Phi); isPhi {
				continue
			}
			fr.curInstr = instr
			p.steps++
			if p.steps > p.maxSteps {
				panic(abortPath{kind: "budget", msg: "step budget exhausted"})
			}
			switch p.visitInstr(fr, instr) {
			case kReturn:
				return
			case kNext:
			case kJump:
				goto nextBlock
			}
		}
		panic("unreachable: block without terminator")
	nextBlock:
	}
}

func (p *Path) zeroResults(fn *ssa.Function) value {
	res := fn.Signature.Results()
	switch res.Len() {
	case 0:
		return nil
	case 1:
		return p.zero(res.At(0).Type())
	}
	return p.zero(res)
}

func (fr *frame) runDefer(d *deferred) {
	ok := false
	defer func() {
		if !ok {
			r := recover()
			if _, isT := r.(targetPanic); !isT {
				panic(r)
			}
			fr.panicking = true
			fr.panicVal = r
		}
	}()
	fr.p.call(fr, d.fn, d.args)
	ok = true
}

func (fr *frame) runDefers() {
	for d := fr.defers; d != nil; d = d.tail {
		fr.defers = d.tail
		fr.runDefer(d)
	}
	fr.defers = nil
	if fr.panicking {
		panic(fr.panicVal)
	}
}

type continuation int

const (
	kNext continuation = iota
	kReturn
	kJump
)

func (p *Path) rtPanic(msg string) targetPanic {
	if p.cur != nil && p.cur.fr != nil {
		msg += " [at " + p.cur.fr.where() + "]"
	}
	return targetPanic{iface{t: nil, v: &runtimeErr{msg}}}
}

func (p *Path) asBoolTerm(v value) *Term {
	t, ok := v.(*Term)
	if !ok {
		panic(p.unsupported(fmt.Sprintf("expected bool term, got %T", v)))
	}
	return t
}

func (p *Path) visitInstr(fr *frame, instr ssa.Instruction) continuation {
	switch instr := instr.(type) {
	case *ssa.DebugRef:

	case *ssa.UnOp:
		if p.fineFuncs != nil && instr.Op == token.MUL && p.fineFuncs[fr.fn.String()] && p.sharedAddr(instr.X) {
			p.schedPoint("load")
		}
		fr.env[instr] = p.unop(fr, instr, fr.get(instr.X))

	case *ssa.BinOp:
		fr.env[instr] = p.binop(instr.Op, instr.X.Type(), fr.get(instr.X), fr.get(instr.Y))

	case *ssa.Call:
		fn, args := p.prepareCall(fr, &instr.Call)
		fr.env[instr] = p.call(fr, fn, args)

	case *ssa.ChangeInterface:
		fr.env[instr] = fr.get(instr.X)

	case *ssa.ChangeType:
		fr.env[instr] = fr.get(instr.X)

	case *ssa.Convert:
		fr.env[instr] = p.conv(instr.Type(), instr.X.Type(), fr.get(instr.X))

	case *ssa.SliceToArrayPointer:
		fr.env[instr] = p.sliceToArrayPointer(instr.Type(), fr.get(instr.X))

	case *ssa.MakeInterface:
		fr.env[instr] = iface{t: instr.X.Type(), v: fr.get(instr.X)}

	case *ssa.Extract:
		fr.env[instr] = fr.get(instr.Tuple).(tuple)[instr.Index]

	case *ssa.Slice:
		fr.env[instr] = p.sliceOp(instr, fr.get(instr.X), fr.get(instr.Low), fr.get(instr.High), fr.get(instr.Max))

	case *ssa.Return:
		switch len(instr.Results) {
		case 0:
		case 1:
			fr.result = fr.get(instr.Results[0])
		default:
			res := make(tuple, 0, len(instr.Results))
			for _, r := range instr.Results {
				res = append(res, fr.get(r))
			}
			fr.result = res
		}
		fr.block = nil
		return kReturn

	case *ssa.RunDefers:
		fr.runDefers()

	case *ssa.Panic:
		panic(targetPanic{fr.get(instr.X)})

	case *ssa.Send:
		p.chanSend(fr.get(instr.Chan).(*chanV), fr.get(instr.X))

	case *ssa.Store:
		if p.fineFuncs != nil && p.fineFuncs[fr.fn.String()] && p.sharedAddr(instr.Addr) {
			p.schedPoint("store")
		}
		p.store(fr.get(instr.Addr), fr.get(instr.Val))

	case *ssa.If:
		succ := 1
		if p.branch(p.asBoolTerm(fr.get(instr.Cond))) {
			succ = 0
		}
		fr.prevBlock, fr.block = fr.block, fr.block.Succs[succ]
		p.enterBlock(fr)
		return kJump

	case *ssa.Jump:
		fr.prevBlock, fr.block = fr.block, fr.block.Succs[0]
		p.enterBlock(fr)
		return kJump

	case *ssa.Defer:
		fn, args := p.prepareCall(fr, &instr.Call)
		if instr.DeferStack != nil {
			panic(p.unsupported("defer with explicit DeferStack (range-over-func)"))
		}
		fr.defers = &deferred{fn: fn, args: args, instr: instr, tail: fr.defers}

	case *ssa.Go:
		fn, args := p.prepareCall(fr, &instr.Call)
		p.spawn(fn, args, instr.Call.Value.Name())

	case *ssa.MakeChan:
		n, ok := concInt(fr.get(instr.Size))
		if !ok {
			panic(p.unsupported("symbolic channel size"))
		}
		p.fresh++
		fr.env[instr] = &chanV{cap: int(n), id: p.fresh}

	case *ssa.Alloc:
		var addr *value
		if instr.Heap {
			addr = new(value)
			fr.env[instr] = addr
		} else {
			addr = fr.env[instr].(*value)
		}
		*addr = p.zero(deref(instr.Type()))

	case *ssa.MakeSlice:
		fr.env[instr] = p.makeSlice(instr.Type(), fr.get(instr.Len), fr.get(instr.Cap))

	case *ssa.MakeMap:
		mt := instr.Type().Underlying().(*types.Map)
		fr.env[instr] = &mapV{kt: mt.Key(), vt: mt.Elem()}

	case *ssa.Range:
		fr.env[instr] = p.rangeIter(fr.get(instr.X), instr.X.Type())

	case *ssa.Next:
		fr.env[instr] = fr.get(instr.Iter).(iter).next(p)

	case *ssa.FieldAddr:
		base := p.cellOf(fr.get(instr.X))
		if base == nil {
			panic(p.rtPanic("invalid memory address or nil pointer dereference"))
		}
		fr.env[instr] = &(*base).(structure)[instr.Field]

	case *ssa.Field:
		fr.env[instr] = fr.get(instr.X).(structure)[instr.Field]

	case *ssa.IndexAddr:
		fr.env[instr] = p.indexAddr(fr.get(instr.X), fr.get(instr.Index))

	case *ssa.Index:
		fr.env[instr] = p.index(instr, fr.get(instr.X), fr.get(instr.Index))

	case *ssa.Lookup:
		fr.env[instr] = p.lookup(instr, fr.get(instr.X), fr.get(instr.Index))

	case *ssa.MapUpdate:
		m := fr.get(instr.Map).(*mapV)
		if m == nil {
			panic(p.rtPanic("assignment to entry in nil map"))
		}
		p.mapSet(m, fr.get(instr.Key), copyVal(fr.get(instr.Value)))

	case *ssa.TypeAssert:
		fr.env[instr] = p.typeAssert(instr, fr.get(instr.X).(iface))

	case *ssa.MakeClosure:
		var bindings []value
		for _, b := range instr.Bindings {
			bindings = append(bindings, fr.get(b))
		}
		fr.env[instr] = &closure{instr.Fn.(*ssa.Function), bindings}

	case *ssa.Phi:
		panic("phi outside block entry")

	case *ssa.Select:
		fr.env[instr] = p.selectOp(instr, fr)

	default:
		panic(p.unsupported(fmt.Sprintf("instruction %T", instr)))
	}
	return kNext
}

// sharedAddr: can the address refer to memory another goroutine may see? (not a non-escaping local)
func (p *Path) sharedAddr(a ssa.Value) bool {
	switch x := a.(type) {
	case *ssa.Alloc:
		return x.Heap
	case *ssa.FieldAddr:
		return p.sharedAddr(x.X)
	case *ssa.IndexAddr:
		return p.sharedAddr(x.X)
	}
	return true
}

// enterBlock evaluates phis of the new block (parallel assignment).
func (p *Path) enterBlock(fr *frame) {
	blk := fr.block
	if len(blk.Instrs) == 0 {
		return
	}
	if _, ok := blk.Instrs[0].(*ssa.Phi); !ok {
		return
	}
	idx := -1
	for i, pred := range blk.Preds {
		if pred == fr.prevBlock {
			idx = i
			break
		}
	}
	var vals []value
	var phis []*ssa.Phi
	for _, in := range blk.Instrs {
		phi, ok := in.(*ssa.Phi)
		if !ok {
			break
		}
		phis = append(phis, phi)
		vals = append(vals, fr.get(phi.Edges[idx]))
	}
	for i, phi := range phis {
		fr.env[phi] = vals[i]
	}
}

// runFrame's instruction loop must skip phis: they were set on entry.
func init() {}

func (p *Path) typeAssert(instr *ssa.TypeAssert, itf iface) value {
	var v value
	err := ""
	if itf.t == nil {
		err = fmt.Sprintf("interface conversion: interface is nil, not %s", instr.AssertedType)
	} else if idst, ok := instr.AssertedType.Underlying().(*types.Interface); ok {
		v = itf
		if !p.implements(itf, idst) {
			err = fmt.Sprintf("interface conversion: %v does not implement %v", itf.t, instr.AssertedType)
		}
	} else if types.Identical(itf.t, instr.AssertedType) {
		v = itf.v
	} else {
		err = fmt.Sprintf("interface conversion: interface is %s, not %s", itf.t, instr.AssertedType)
	}
	if err != "" {
		if !instr.CommaOk {
			panic(p.rtPanic(err))
		}
		return tuple{p.zero(instr.AssertedType), p.tt.Bool(false)}
	}
	if instr.CommaOk {
		return tuple{v, p.tt.Bool(true)}
	}
	return v
}

func (p *Path) implements(itf iface, idst *types.Interface) bool {
	switch itf.v.(type) {
	case *errModel, *runtimeErr:
		// implements error only
		for i := 0; i < idst.NumMethods(); i++ {
			n := idst.Method(i).Name()
			if n != "Error" && !(n == "Unwrap") {
				return false
			}
		}
		return true
	case *aeadModel:
		return true
	}
	if itf.t == nil {
		return false
	}
	return types.Implements(itf.t, idst)
}
