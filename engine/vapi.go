package main

// Engine side of the harness API package (internal/zzverif/vapi).

import (
	"fmt"
	"go/types"
	"strings"

	"golang.org/x/tools/go/ssa"
)

const vapiPath = "github.com/cbeuw/Cloak/internal/zzverif/vapi"

func (p *Path) strArg(v value) string {
	s, ok := v.(string)
	if !ok {
		panic(p.unsupported("vapi: non-constant string argument"))
	}
	return s
}

func (p *Path) intArg(v value) int {
	n, ok := concInt(v)
	if !ok {
		panic(p.unsupported("vapi: non-constant int argument"))
	}
	return int(n)
}

func (p *Path) doAssume(c *Term) {
	if c.isConst() {
		if c.val == 0 {
			panic(abortPath{kind: "infeasible", msg: "assume(false) at " + p.where()})
		}
		return
	}
	if len(p.dec) >= len(p.prefix) {
		if !p.feasible(c) {
			panic(abortPath{kind: "infeasible", msg: "assumption infeasible"})
		}
	}
	p.assertPC(c)
}

func (p *Path) doAssert(c *Term, known, msg string) {
	p.res.Asserts++
	r, model := p.checkAssert(c)
	switch r {
	case "unsat":
		p.res.AssertsOK++
	case "sat":
		p.reportViolation("assert", msg, known, model)
	default:
		p.res.AssertUnknown = append(p.res.AssertUnknown, msg+" at "+p.where())
	}
	// continue under the assumption that the assertion holds
	if c.isConst() {
		if c.val == 0 {
			panic(abortPath{kind: "stop", msg: "assertion false on whole path"})
		}
		return
	}
	if !p.feasible(c) {
		panic(abortPath{kind: "stop", msg: "assertion false on whole path"})
	}
	p.assertPC(c)
}

func init() {
	pkgIntrinsics[vapiPath] = func(p *Path, c *frame, fn *ssa.Function, a []value) (value, bool) {
		switch fn.Name() {
		case "U8":
			return p.freshVar(p.strArg(a[0]), 8), true
		case "U16":
			return p.freshVar(p.strArg(a[0]), 16), true
		case "U32":
			return p.freshVar(p.strArg(a[0]), 32), true
		case "U64", "I64", "Int":
			return p.freshVar(p.strArg(a[0]), 64), true
		case "I32":
			return p.freshVar(p.strArg(a[0]), 32), true
		case "Bool":
			return p.freshVar(p.strArg(a[0]), 0), true
		case "Bytes":
			n := p.intArg(a[1])
			name := p.strArg(a[0])
			back := make([]value, n)
			for i := range back {
				back[i] = p.freshVar(fmt.Sprintf("%s[%d]", name, i), 8)
			}
			nn := p.i64(int64(n))
			return &sliceV{back: back, off: p.i64(0), len: nn, cap: nn, nonNil: true}, true
		case "AbstractBytes":
			n := p.intArg(a[1])
			nn := p.i64(int64(n))
			return &sliceV{abs: &absArr{n: n, name: p.strArg(a[0])}, off: p.i64(0), len: nn, cap: nn, nonNil: true}, true
		case "Range": // symbolic int in [lo,hi]
			v := p.freshVar(p.strArg(a[0]), 64)
			if p.pin != nil && p.eng.randSeed != 0 {
				// validation runs: fold the pseudo-random draw into the range (as the native vapi does)
				lo, ok1 := concInt(a[1])
				hi, ok2 := concInt(a[2])
				if ok1 && ok2 && hi >= lo && (sext64(v.val, 64) < lo || sext64(v.val, 64) > hi) {
					v = p.i64(lo + int64(v.val%uint64(hi-lo+1)))
				}
			}
			p.doAssume(p.tt.BAnd(p.tt.Cmp(OpSle, a[1].(*Term), v), p.tt.Cmp(OpSle, v, a[2].(*Term))))
			return v, true
		case "Pick": // concrete int in [0,n): forks
			n := p.intArg(a[1])
			if n <= 0 {
				panic(abortPath{kind: "infeasible", msg: "Pick(0)"})
			}
			if n == 1 {
				return p.i64(0), true
			}
			return p.i64(int64(p.decideCtl(n))), true
		case "Concretize":
			return p.tt.Const(64, p.concretize(a[0].(*Term), "vapi.Concretize")), true
		case "Assume":
			p.doAssume(a[0].(*Term))
			return nil, true
		case "Assert":
			p.doAssert(a[0].(*Term), "", p.strArg(a[1]))
			return nil, true
		case "AssertKnown":
			p.doAssert(a[0].(*Term), p.strArg(a[1]), p.strArg(a[2]))
			return nil, true
		case "And":
			return p.tt.BAnd(a[0].(*Term), a[1].(*Term)), true
		case "Or":
			return p.tt.BOr(a[0].(*Term), a[1].(*Term)), true
		case "Not":
			return p.tt.Not(a[0].(*Term)), true
		case "Implies":
			return p.tt.BOr(p.tt.Not(a[0].(*Term)), a[1].(*Term)), true
		case "IteU64", "IteInt":
			return p.tt.Ite(a[0].(*Term), a[1].(*Term), a[2].(*Term)), true
		case "IteU8":
			return p.tt.Ite(a[0].(*Term), a[1].(*Term), a[2].(*Term)), true
		case "BytesEq":
			x := p.elems(a[0].(*sliceV), "BytesEq")
			y := p.elems(a[1].(*sliceV), "BytesEq")
			if len(x) != len(y) {
				return p.tt.fls, true
			}
			r := p.tt.tru
			for i := range x {
				r = p.tt.BAnd(r, p.tt.Eq(x[i].(*Term), y[i].(*Term)))
			}
			return r, true
		case "StrEq":
			return p.equals(types.Typ[types.String], a[0], a[1]), true
		case "IsSym":
			t, ok := a[0].(*Term)
			return p.tt.Bool(ok && !t.isConst()), true
		case "Reach":
			p.res.Reached[p.strArg(a[0])] = true
			return nil, true
		case "Observe":
			p.res.Observes = append(p.res.Observes, fmt.Sprintf("%s=%s", p.strArg(a[0]), valStr(a[1])))
			return nil, true
		case "Symbolic":
			return p.tt.tru, true
		case "Tier":
			return p.i64(int64(p.eng.tier)), true
		case "Param":
			name := p.strArg(a[0])
			if v, ok := p.eng.params[name]; ok {
				return p.i64(int64(v)), true
			}
			return a[1], true
		case "SetPreemptBound":
			p.maxPreempt = p.intArg(a[0])
			return nil, true
		case "PoolMode":
			p.poolMode = p.intArg(a[0])
			return nil, true
		case "Adversary":
			p.adversary = a[0].(*Term).val != 0
			return nil, true
		case "MapOrderNondet":
			p.mapOrderNondet = a[0].(*Term).val != 0
			return nil, true
		case "DetSched":
			p.detSched = a[0].(*Term).val != 0
			return nil, true
		case "RandZero":
			// stated reduction for schedule-centred harnesses: padding draws and random bytes are all zero
			p.randZero = a[0].(*Term).val != 0
			return nil, true
		case "RandIntSmall":
			p.randSmall = a[0].(*Term).val != 0
			return nil, true
		case "RandIntEdges":
			p.randEdges = a[0].(*Term).val != 0
			return nil, true
		case "ConcLimit":
			p.concLimit = p.intArg(a[0])
			return nil, true
		case "Redirect":
			p.redirectVals[p.strArg(a[0])] = a[1].(iface).v
			return nil, true
		case "Yield":
			p.schedPoint("Yield")
			return nil, true
		case "NoPreempt":
			if a[0].(*Term).val != 0 {
				p.noPreempt++
			} else {
				p.noPreempt--
			}
			return nil, true
		case "Quiesce":
			if len(p.threads) > 1 {
				p.block(new(int), "quiesce")
			}
			return nil, true
		case "WouldBlock":
			return p.tt.Bool(p.wouldBlock(c, a[0])), true
		case "Go": // like go f() but returns a handle index
			t := p.spawn(a[0], nil, "vapi.Go")
			return p.i64(int64(t.id)), true
		case "Join":
			id := p.intArg(a[0])
			t := p.threads[id]
			for t.state != stDone {
				p.block(t, "join")
			}
			return nil, true
		case "Done":
			id := p.intArg(a[0])
			return p.tt.Bool(p.threads[id].state == stDone), true
		case "Blocked":
			id := p.intArg(a[0])
			return p.tt.Bool(p.threads[id].state == stBlocked), true
		case "FineGrain":
			// plain loads/stores of possibly shared memory inside the named function become scheduling points
			if p.fineFuncs == nil {
				p.fineFuncs = map[string]bool{}
			}
			p.fineFuncs[p.strArg(a[0])] = true
			return nil, true
		case "TimedSleep":
			p.timedSleep = a[0].(*Term).val != 0
			return nil, true
		case "HTTPServeCalls":
			return p.i64(int64(p.httpServeCalls)), true
		case "EagerOffsets":
			p.eagerOffsets = a[0].(*Term).val != 0
			return nil, true
		case "SleepBlocks":
			p.sleepBlocks = a[0].(*Term).val != 0
			return nil, true
		case "WakeSleepers":
			for _, t := range p.threads {
				if t.sleeping {
					t.sleeping = false
				}
			}
			p.wake(sleepTok)
			return nil, true
		case "ExpectDeadlock":
			p.deadlockKnown = p.strArg(a[0])
			return nil, true
		case "Clock":
			return p.clock, true
		case "AdvanceClock":
			p.clock = p.tt.Bin(OpAdd, p.clock, a[0].(*Term))
			return nil, true
		case "NumSleeps":
			return p.i64(int64(len(p.sleepLog))), true
		case "SleepDur":
			return p.sleepLog[p.intArg(a[0])], true
		case "NumTimers":
			return p.i64(int64(len(p.timers))), true
		case "TimerLive":
			tr := p.timers[p.intArg(a[0])]
			return p.tt.Bool(!tr.stopped && !tr.fired), true
		case "FireTimer":
			tr := p.timers[p.intArg(a[0])]
			if tr.stopped || tr.fired {
				return p.tt.Bool(false), true
			}
			tr.fired = true
			p.call(c, tr.fn, nil)
			return p.tt.Bool(true), true
		case "Native":
			return p.tt.fls, true
		case "Fail":
			p.reportViolation("assert", p.strArg(a[0]), "", p.modelOrNil())
			panic(abortPath{kind: "stop", msg: "Fail"})
		}
		if strings.HasPrefix(fn.Name(), "init") {
			return nil, false
		}
		return nil, false
	}
}

// wouldBlock runs f in a fresh thread; true if it blocks with nobody able to release it.
func (p *Path) wouldBlock(c *frame, f value) bool {
	me := p.cur
	saved := p.noPreempt
	t := p.spawnQuiet(f)
	pr := &probeRec{target: t}
	me.probe = pr
	for t.state != stDone && !pr.blocked {
		p.block(t, "probe")
	}
	me.probe = nil
	p.noPreempt = saved
	if pr.blocked {
		// abandon the probe thread (it stays blocked for ever)
		t.state = stDone
		t.abandoned = true
		return true
	}
	return false
}

func (p *Path) spawnQuiet(f value) *Thread {
	p.noPreempt++
	t := p.spawn(f, nil, "probe")
	p.noPreempt--
	return t
}
