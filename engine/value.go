package main

// Value domain: "concrete structure, symbolic scalars".
//
//   bool and all integer kinds : *Term (constants are OpConst terms of the exact width; bool has w==0)
//   float32/float64            : Go float64 (concrete only)
//   string                     : Go string, or *symStr (concrete length, symbolic bytes)
//   pointer                    : *value (cell), *eptr (array element with symbolic index / abstract array), or nil-typed
//   struct / array             : structure / array ([]value)
//   slice                      : *sliceV
//   interface                  : iface
//   map                        : *mapV
//   chan                       : *chanV
//   func                       : *ssa.Function, *closure, *ssa.Builtin, *nativeFn
//   tuple                      : tuple

import (
	"fmt"
	"go/types"
	"strings"

	"golang.org/x/tools/go/ssa"
)

type value interface{}

type structure []value
type array []value
type tuple []value

type iface struct {
	t types.Type // dynamic type; nil for nil interface
	v value
}

type closure struct {
	fn  *ssa.Function
	env []value
}

// bound method / engine-provided function value
type nativeFn struct {
	name string
	fn   func(p *Path, args []value) value
}

type symStr struct {
	b []value // each *Term of width 8
}

// absArr is a content-abstract byte array: loads return fresh bytes, stores are dropped.
type absArr struct {
	n     int
	name  string
	known map[int]value // bytes stored at concrete positions and not overwritten since
}

// forget drops the known bytes at positions >= from (all of them when from is symbolic).
func (a *absArr) forget(from *Term) {
	if a.known == nil {
		return
	}
	if !from.isConst() {
		a.known = nil
		return
	}
	for i := range a.known {
		if i >= int(from.val) {
			delete(a.known, i)
		}
	}
}

type sliceV struct {
	back []value // backing store from element 0 of the underlying array (nil for nil slice or abstract)
	abs  *absArr
	off  *Term // int (w=64)
	len  *Term
	cap  *Term
	nonNil bool
}

// eptr points at an element of an array with a symbolic index or into an abstract array.
type eptr struct {
	back []value
	abs  *absArr
	idx  *Term
}

type mapV struct {
	keys  []value
	vals  []value
	kt    types.Type
	vt    types.Type
	alive []bool
}

type chanV struct {
	buf    []value
	cap    int
	closed bool
	// rendezvous for unbuffered channels
	senders []*chanWaiter
	id      int
}

type chanWaiter struct {
	t    *Thread
	v    value
	done bool
}

type targetPanic struct {
	v value
}

// runtimeErr is the dynamic value of a Go run-time panic.
type runtimeErr struct {
	msg string
}

// errModel models errors produced by stubbed formatters (fmt.Errorf).
type errModel struct {
	msg     string
	wrapped []value // iface values
}

func (tp targetPanic) String() string { return fmt.Sprintf("panic: %v", panicString(tp.v)) }

func panicString(v value) string {
	switch x := v.(type) {
	case iface:
		switch y := x.v.(type) {
		case *runtimeErr:
			return "runtime error: " + y.msg
		case *errModel:
			return y.msg
		case string:
			return y
		}
		return fmt.Sprintf("%v(%v)", x.t, valStr(x.v))
	}
	return valStr(v)
}

func valStr(v value) string {
	switch x := v.(type) {
	case nil:
		return "nil"
	case *Term:
		if x.isConst() {
			if x.w == 0 {
				return fmt.Sprint(x.val != 0)
			}
			return fmt.Sprintf("%d", x.val)
		}
		return fmt.Sprintf("sym%d", x.id)
	case string:
		return fmt.Sprintf("%q", x)
	case *symStr:
		return "symstr"
	case structure:
		var sb strings.Builder
		sb.WriteString("{")
		for i, f := range x {
			if i > 0 {
				sb.WriteString(" ")
			}
			if i > 8 {
				sb.WriteString("...")
				break
			}
			sb.WriteString(valStr(f))
		}
		sb.WriteString("}")
		return sb.String()
	case array:
		return fmt.Sprintf("array[%d]", len(x))
	case *sliceV:
		return fmt.Sprintf("slice(len=%s)", valStr(x.len))
	case iface:
		if x.t == nil {
			return "nil-iface"
		}
		return fmt.Sprintf("iface(%v)", x.t)
	case *value:
		if x == nil {
			return "nilptr"
		}
		return fmt.Sprintf("ptr%p", x)
	case *errModel:
		return "err(" + x.msg + ")"
	case *runtimeErr:
		return "rterr(" + x.msg + ")"
	}
	return fmt.Sprintf("%T", v)
}

func isIntegerKind(b *types.Basic) bool {
	return b.Info()&types.IsInteger != 0
}

// widthOf returns the bit width of a basic integer/bool type (0 for bool), and signedness.
func widthOf(t types.Type) (w int, signed bool, ok bool) {
	b, isB := t.Underlying().(*types.Basic)
	if !isB {
		return 0, false, false
	}
	switch b.Kind() {
	case types.Bool, types.UntypedBool:
		return 0, false, true
	case types.Int8:
		return 8, true, true
	case types.Int16:
		return 16, true, true
	case types.Int32, types.UntypedRune:
		return 32, true, true
	case types.Int64, types.Int, types.UntypedInt:
		return 64, true, true
	case types.Uint8:
		return 8, false, true
	case types.Uint16:
		return 16, false, true
	case types.Uint32:
		return 32, false, true
	case types.Uint64, types.Uint, types.Uintptr:
		return 64, false, true
	}
	return 0, false, false
}

func isFloat(t types.Type) bool {
	b, ok := t.Underlying().(*types.Basic)
	return ok && b.Info()&types.IsFloat != 0
}

func isString(t types.Type) bool {
	b, ok := t.Underlying().(*types.Basic)
	return ok && b.Info()&types.IsString != 0
}

// zero returns the zero value of type t.
func (p *Path) zero(t types.Type) value {
	switch u := t.Underlying().(type) {
	case *types.Basic:
		if u.Kind() == types.UnsafePointer {
			return (*value)(nil)
		}
		if w, _, ok := widthOf(u); ok {
			return p.tt.Const(w, 0)
		}
		if u.Info()&types.IsFloat != 0 {
			return float64(0)
		}
		if u.Info()&types.IsString != 0 {
			return ""
		}
		if u.Kind() == types.UntypedNil {
			return nil
		}
		if u.Info()&types.IsComplex != 0 {
			return complex128(0)
		}
		panic(p.unsupported("zero of basic type " + u.String()))
	case *types.Pointer:
		return (*value)(nil)
	case *types.Struct:
		s := make(structure, u.NumFields())
		for i := range s {
			s[i] = p.zero(u.Field(i).Type())
		}
		return s
	case *types.Array:
		n := int(u.Len())
		a := make(array, n)
		if n > 0 {
			z := p.zero(u.Elem())
			switch z.(type) {
			case structure, array:
				for i := range a {
					a[i] = p.zero(u.Elem())
				}
			default:
				for i := range a {
					a[i] = z
				}
			}
		}
		return a
	case *types.Slice:
		return &sliceV{off: p.i64(0), len: p.i64(0), cap: p.i64(0)}
	case *types.Interface:
		return iface{}
	case *types.Map:
		return (*mapV)(nil)
	case *types.Chan:
		return (*chanV)(nil)
	case *types.Signature:
		return nil
	case *types.Tuple:
		if u.Len() == 1 {
			return p.zero(u.At(0).Type())
		}
		tp := make(tuple, u.Len())
		for i := range tp {
			tp[i] = p.zero(u.At(i).Type())
		}
		return tp
	case *types.TypeParam:
		panic(p.unsupported("zero of type parameter"))
	}
	panic(p.unsupported(fmt.Sprintf("zero of %T %v", t, t)))
}

func copyVal(v value) value {
	switch x := v.(type) {
	case structure:
		c := make(structure, len(x))
		for i, f := range x {
			c[i] = copyVal(f)
		}
		return c
	case array:
		c := make(array, len(x))
		for i, f := range x {
			switch f.(type) {
			case structure, array:
				c[i] = copyVal(f)
			default:
				c[i] = f
			}
		}
		return c
	case tuple:
		c := make(tuple, len(x))
		for i, f := range x {
			c[i] = copyVal(f)
		}
		return c
	}
	return v
}

func (p *Path) i64(v int64) *Term { return p.tt.Const(64, uint64(v)) }

// conc returns the concrete value of an integer term.
func conc(v value) (uint64, bool) {
	t, ok := v.(*Term)
	if !ok || !t.isConst() {
		return 0, false
	}
	return t.val, true
}

func concInt(v value) (int64, bool) {
	t, ok := v.(*Term)
	if !ok || !t.isConst() {
		return 0, false
	}
	return sext64(t.val, t.w), true
}

func isNilPtr(v value) bool {
	switch x := v.(type) {
	case nil:
		return true
	case *value:
		return x == nil
	case *eptr:
		return x == nil
	}
	return false
}
