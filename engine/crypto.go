package main

// Cryptographic primitives as uninterpreted functions (DESIGN §3.1), with native pass-through on concrete inputs.

import (
	"crypto/aes"
	"crypto/cipher"
	"encoding/hex"
	"fmt"
	"sync"

	"golang.org/x/crypto/chacha20poly1305"
	"golang.org/x/crypto/curve25519"
	"golang.org/x/crypto/salsa20"
	"golang.org/x/tools/go/ssa"
)

type aeadModel struct {
	method string // "aesgcm" | "chacha"
	key    []value
}

type blockModel struct {
	key []value
}

func allConc(bs ...[]value) bool {
	for _, b := range bs {
		for _, e := range b {
			if t, ok := e.(*Term); !ok || !t.isConst() {
				return false
			}
		}
	}
	return true
}

func toBytes(b []value) []byte {
	r := make([]byte, len(b))
	for i, e := range b {
		r[i] = byte(e.(*Term).val)
	}
	return r
}

func (p *Path) fromBytes(b []byte) []value {
	r := make([]value, len(b))
	for i, x := range b {
		r[i] = p.tt.Const(8, uint64(x))
	}
	return r
}

// bytesTerm concatenates byte terms; byte 0 occupies the lowest bits.
func (p *Path) bytesTerm(b []value) *Term {
	if len(b) == 0 {
		panic("bytesTerm of empty")
	}
	r := b[len(b)-1].(*Term)
	for i := len(b) - 2; i >= 0; i-- {
		r = p.tt.Concat(r, b[i].(*Term))
	}
	return r
}

func (p *Path) termBytes(t *Term, n int) []value {
	r := make([]value, n)
	for i := 0; i < n; i++ {
		r[i] = p.tt.Extract(t, 8*i+7, 8*i)
	}
	return r
}

func (p *Path) aeadMethod(m *aeadModel, name string) value {
	return &nativeFn{name: "aead." + name, fn: func(p *Path, a []value) value {
		// a[0] is the receiver
		switch name {
		case "NonceSize":
			return p.i64(12)
		case "Overhead":
			return p.i64(16)
		case "Seal":
			return p.aeadSeal(m, a[1].(*sliceV), a[2].(*sliceV), a[3].(*sliceV), a[4].(*sliceV))
		case "Open":
			return p.aeadOpen(m, a[1].(*sliceV), a[2].(*sliceV), a[3].(*sliceV), a[4].(*sliceV))
		}
		panic(p.unsupported("AEAD method " + name))
	}}
}

func (p *Path) nativeAEAD(m *aeadModel) cipher.AEAD {
	k := toBytes(m.key)
	if m.method == "chacha" {
		a, err := chacha20poly1305.New(k)
		if err != nil {
			panic(p.unsupported("chacha key: " + err.Error()))
		}
		return a
	}
	b, err := aes.NewCipher(k)
	if err != nil {
		panic(p.unsupported("aes key: " + err.Error()))
	}
	g, _ := cipher.NewGCM(b)
	return g
}

func (p *Path) aeadSeal(m *aeadModel, dst, nonce, pt, ad *sliceV) value {
	if !p.branch(p.tt.Eq(nonce.len, p.i64(12))) {
		panic(targetPanic{iface{v: &runtimeErr{"crypto/cipher: incorrect nonce length given to GCM"}}})
	}
	var adb []value
	if !ad.isNil() && ad.abs == nil {
		adb = p.elems(ad, "additional data")
	}
	if pt.abs != nil || dst.abs != nil {
		// length-only: result = append(dst, <len(pt)+16 bytes>)
		outLen := p.tt.Bin(OpAdd, pt.len, p.i64(16))
		tmp := &sliceV{abs: &absArr{n: 1 << 30, name: "sealout"}, off: p.i64(0), len: outLen, cap: outLen, nonNil: true}
		if dst.abs == nil && !dst.isNil() {
			panic(p.unsupported("Seal of abstract plaintext into concrete dst"))
		}
		p.sealInPlaceObligation(dst, pt, outLen)
		return p.appendAbstract(dst, tmp)
	}
	nb := p.elems(nonce, "nonce")
	pb := append([]value(nil), p.elems(pt, "plaintext")...)
	var out []value
	if allConc(m.key, nb, pb, adb) {
		ct := p.nativeAEAD(m).Seal(nil, toBytes(nb), toBytes(pb), toBytes(adb))
		out = p.fromBytes(ct)
	} else {
		L := len(pb)
		keyT := p.bytesTerm(m.key)
		nT := p.bytesTerm(nb)
		name := fmt.Sprintf("seal_%s_%d_%d_ad%d", m.method, len(m.key)*8, L, len(adb))
		args := []*Term{keyT, nT}
		var ptT, adT *Term
		if L > 0 {
			ptT = p.bytesTerm(pb)
			args = append(args, ptT)
		}
		if len(adb) > 0 {
			adT = p.bytesTerm(adb)
			args = append(args, adT)
		}
		ct := p.tt.Apply(name, 8*(L+16), args...)
		out = p.termBytes(ct, L+16)
		p.aeadSeals = append(p.aeadSeals, sealRec{method: m.method, key: keyT, nonce: nT, n: L, ct: ct, pt: ptT, adLen: len(adb), ad: adT})
	}
	tmp := p.bytesToSlice(out)
	return p.appendOp(dst, tmp, nil)
}

// sealInPlaceObligation: nothing to assert here; capacity is handled by appendAbstract's fork.
func (p *Path) sealInPlaceObligation(dst, pt *sliceV, outLen *Term) {}

func (p *Path) aeadOpen(m *aeadModel, dst, nonce, ct, ad *sliceV) value {
	authErr := iface{v: &errModel{msg: "cipher: message authentication failed"}}
	if !p.branch(p.tt.Eq(nonce.len, p.i64(12))) {
		panic(targetPanic{iface{v: &runtimeErr{"crypto/cipher: incorrect nonce length given to GCM"}}})
	}
	var adb []value
	if !ad.isNil() && ad.abs == nil {
		adb = p.elems(ad, "additional data")
	}
	nilSlice := &sliceV{off: p.i64(0), len: p.i64(0), cap: p.i64(0)}
	if !p.branch(p.tt.Cmp(OpSle, p.i64(16), ct.len)) {
		return tuple{nilSlice, authErr}
	}
	if ct.abs != nil || dst.abs != nil {
		p.fresh++
		ok := p.tt.Var(fmt.Sprintf("open_ok!%d", p.fresh), 0)
		if !p.branch(ok) {
			return tuple{nilSlice, authErr}
		}
		outLen := p.tt.Bin(OpSub, ct.len, p.i64(16))
		tmp := &sliceV{abs: &absArr{n: 1 << 30, name: "openout"}, off: p.i64(0), len: outLen, cap: outLen, nonNil: true}
		return tuple{p.appendAbstract(dst, tmp), iface{}}
	}
	nb := p.elems(nonce, "nonce")
	cb := append([]value(nil), p.elems(ct, "ciphertext")...)
	L := len(cb) - 16
	if allConc(m.key, nb, cb, adb) {
		pt, err := p.nativeAEAD(m).Open(nil, toBytes(nb), toBytes(cb), toBytes(adb))
		if err != nil {
			return tuple{nilSlice, authErr}
		}
		return tuple{p.appendOp(dst, p.bytesToSlice(p.fromBytes(pt)), nil), iface{}}
	}
	keyT := p.bytesTerm(m.key)
	nT := p.bytesTerm(nb)
	cT := p.bytesTerm(cb)
	oargs := []*Term{keyT, nT, cT}
	var adT *Term
	if len(adb) > 0 {
		adT = p.bytesTerm(adb)
		oargs = append(oargs, adT)
	}
	okT := p.tt.Apply(fmt.Sprintf("openok_%s_%d_%d_ad%d", m.method, len(m.key)*8, L, len(adb)), 0, oargs...)
	var ptT *Term
	if L > 0 {
		ptT = p.tt.Apply(fmt.Sprintf("openpt_%s_%d_%d_ad%d", m.method, len(m.key)*8, L, len(adb)), 8*L, oargs...)
	}
	// axioms against the seals made so far on this path
	anyMatch := p.tt.fls
	for _, s := range p.aeadSeals {
		if s.method != m.method || s.n != L || s.key.w != keyT.w || s.adLen != len(adb) {
			continue
		}
		match := p.tt.BAnd(p.tt.BAnd(p.tt.Eq(s.key, keyT), p.tt.Eq(s.nonce, nT)), p.tt.Eq(s.ct, cT))
		if adT != nil {
			match = p.tt.BAnd(match, p.tt.Eq(s.ad, adT))
		}
		cons := okT
		if L > 0 {
			cons = p.tt.BAnd(okT, p.tt.Eq(ptT, s.pt))
		}
		p.assertPC(p.tt.BOr(p.tt.Not(match), cons))
		anyMatch = p.tt.BOr(anyMatch, match)
	}
	if p.adversary {
		// INT-CTXT: acceptance implies the triple is one of the honest seals
		p.assertPC(p.tt.BOr(p.tt.Not(okT), anyMatch))
	}
	if !p.branch(okT) {
		return tuple{nilSlice, authErr}
	}
	var out []value
	if L > 0 {
		out = p.termBytes(ptT, L)
	}
	return tuple{p.appendOp(dst, p.bytesToSlice(out), nil), iface{}}
}

func (p *Path) salsaXOR(out, in, nonce *sliceV, keyPtr value) {
	nl, ok := concInt(nonce.len)
	if !ok {
		nl = int64(p.concretize(nonce.len, "salsa nonce length"))
	}
	if nl != 8 && nl != 24 {
		panic(targetPanic{iface{v: &runtimeErr{"salsa20: nonce must be 8 or 24 bytes"}}})
	}
	if !p.branch(p.tt.Cmp(OpSle, in.len, out.len)) {
		panic(targetPanic{iface{v: &runtimeErr{"salsa20: output smaller than input"}}})
	}
	if in.abs != nil || out.abs != nil {
		return // content-abstract: stores dropped
	}
	ib := append([]value(nil), p.elems(in, "salsa input")...)
	nb := p.elems(nonce, "salsa nonce")
	kc := p.cellOf(keyPtr)
	key := []value((*kc).(array))
	L := len(ib)
	ob := p.elemsN(out, L, "salsa output")
	if allConc(key, nb, ib) {
		var k [32]byte
		copy(k[:], toBytes(key))
		o := make([]byte, L)
		salsa20.XORKeyStream(o, toBytes(ib), toBytes(nb), &k)
		copy(ob, p.fromBytes(o))
		return
	}
	if L > 64 || nl != 8 {
		panic(p.unsupported("symbolic salsa20 over more than 64 bytes / 24-byte nonce"))
	}
	ks := p.tt.Apply("salsa20_ks", 512, p.bytesTerm(key), p.bytesTerm(nb))
	for i := 0; i < L; i++ {
		ob[i] = p.tt.Bin(OpXor, ib[i].(*Term), p.tt.Extract(ks, 8*i+7, 8*i))
	}
}

// clamp applies the X25519 scalar clamping.
func (p *Path) clamp(s []value) []value {
	r := append([]value(nil), s...)
	r[0] = p.tt.Bin(OpAnd, r[0].(*Term), p.tt.Const(8, 248))
	r[31] = p.tt.Bin(OpOr, p.tt.Bin(OpAnd, r[31].(*Term), p.tt.Const(8, 127)), p.tt.Const(8, 64))
	return r
}

type pubRec struct {
	bytes  []value
	scalar *Term
}

type dhRec struct {
	scalar, point, res *Term
}

// dhInjective: for a fixed scalar, X25519 is injective in the (masked, canonical) u-coordinate: equal outputs
// imply equal points. (The 19 non-canonical encodings u >= 2^255-19 are outside the claim.)
func (p *Path) dhInjective(s, pt, res *Term) {
	for _, d := range p.dhs {
		if d.point == pt && d.scalar == s {
			continue
		}
		same := p.tt.BAnd(p.tt.Eq(d.scalar, s), p.tt.Eq(d.res, res))
		p.assertPC(p.tt.BOr(p.tt.Not(same), p.tt.Eq(d.point, pt)))
	}
	p.dhs = append(p.dhs, dhRec{s, pt, res})
}

var lowOrderOnce sync.Once

// u-coordinates (little endian, top bit clear) for which X25519 yields the all-zero output: 0, 1, the two points of
// order 8, p-1, p, p+1. Checked against the real implementation the first time the table is used.
var lowOrderPoints = func() [][]byte {
	var out [][]byte
	for _, h := range []string{
		"0000000000000000000000000000000000000000000000000000000000000000",
		"0100000000000000000000000000000000000000000000000000000000000000",
		"e0eb7a7c3b41b8ae1656e3faf19fc46ada098deb9c32b1fd866205165f49b800",
		"5f9c95bca3508c24b1d0b1559c83ef5b04445cc4581c8e86d8224eddd09f1157",
		"ecffffffffffffffffffffffffffffffffffffffffffffffffffffffffffff7f",
		"edffffffffffffffffffffffffffffffffffffffffffffffffffffffffffff7f",
		"eeffffffffffffffffffffffffffffffffffffffffffffffffffffffffffff7f",
	} {
		b, _ := hex.DecodeString(h)
		out = append(out, b)
	}
	return out
}()

func checkLowOrderTable() {
	sc := make([]byte, 32)
	sc[0], sc[31] = 8, 64
	for _, lp := range lowOrderPoints {
		if _, err := curve25519.X25519(sc, lp); err == nil {
			panic("low-order table entry accepted by curve25519.X25519")
		}
	}
	// neighbours are not of small order
	for _, h := range []string{"02", "ebffffffffffffffffffffffffffffffffffffffffffffffffffffffffffff7f", "efffffffffffffffffffffffffffffffffffffffffffffffffffffffffffff7f"} {
		b, _ := hex.DecodeString(h)
		pt := make([]byte, 32)
		copy(pt, b)
		if _, err := curve25519.X25519(sc, pt); err != nil {
			panic("neighbour of a low-order point rejected by curve25519.X25519")
		}
	}
}

func (p *Path) anyNonZero(bs []value) *Term {
	r := p.tt.fls
	for _, b := range bs {
		r = p.tt.BOr(r, p.tt.Not(p.tt.Eq(b.(*Term), p.tt.Const(8, 0))))
	}
	return r
}

// x25519 models curve25519.X25519(scalar, point): returns 32 result bytes and an optional low-order error condition.
func (p *Path) x25519(scalar, point []value) ([]value, *Term) {
	if allConc(scalar, point) {
		r, err := curve25519.X25519(toBytes(scalar), toBytes(point))
		if err != nil {
			return nil, p.tt.tru
		}
		return p.fromBytes(r), p.tt.fls
	}
	sc := p.clamp(scalar)
	sT := p.bytesTerm(sc)
	// RFC 7748: the top bit of the u-coordinate is ignored
	pm := append([]value(nil), point...)
	pm[31] = p.tt.Bin(OpAnd, pm[31].(*Term), p.tt.Const(8, 127))
	// basepoint?
	isBase := true
	for i, e := range pm {
		c, ok := conc(e)
		want := uint64(0)
		if i == 0 {
			want = 9
		}
		if !ok || c != want {
			isBase = false
			break
		}
	}
	if isBase {
		pub := p.tt.Zext(p.tt.Apply("x25519_pub", 255, sT), 256)
		out := p.termBytes(pub, 32)
		p.pubs = append(p.pubs, pubRec{bytes: out, scalar: sT})
		return out, p.tt.fls
	}
	// honest public key of a known scalar? (syntactic match on all 32 masked bytes)
	for _, pr := range p.pubs {
		same := true
		for i := range pm {
			if pm[i] != pr.bytes[i] {
				same = false
				break
			}
		}
		if same {
			a, b := sT, pr.scalar
			if a.id > b.id {
				a, b = b, a
			}
			sh := p.tt.Zext(p.tt.Apply("x25519_shared", 255, a, b), 256)
			p.dhInjective(sT, p.bytesTerm(pm), sh)
			shb := p.termBytes(sh, 32)
			p.assertPC(p.anyNonZero(shb)) // X25519's low-order error is exactly "all-zero output"
			return shb, p.tt.fls
		}
	}
	pT := p.bytesTerm(pm)
	r := p.tt.Zext(p.tt.Apply("x25519", 255, sT, pT), 256)
	low := p.tt.Apply("x25519_loworder", 0, pT)
	p.dhInjective(sT, pT, r)
	p.assertPC(p.tt.BOr(low, p.anyNonZero(p.termBytes(r, 32)))) // the error case is exactly "all-zero output"
	// the points of small order (as 255-bit encodings) are exactly these seven: ties the predicate to concrete
	// values, so that a counterexample using a degenerate point replays against the real curve code
	lowOrderOnce.Do(checkLowOrderTable)
	isLow := p.tt.fls
	for _, lp := range lowOrderPoints {
		eq := p.tt.tru
		for j := 0; j < 32; j++ {
			eq = p.tt.BAnd(eq, p.tt.Eq(pm[j].(*Term), p.tt.Const(8, uint64(lp[j]))))
		}
		isLow = p.tt.BOr(isLow, eq)
	}
	p.assertPC(p.tt.BAnd(p.tt.BOr(p.tt.Not(low), isLow), p.tt.BOr(p.tt.Not(isLow), low)))
	// relation to the honest public keys seen so far: the point is pub(b) exactly when the result is shared(s, b)
	// (forward: definition; backward: injectivity for a fixed scalar); an honest public key is not a low-order point
	for _, pr := range p.pubs {
		a, b := sT, pr.scalar
		if a.id > b.id {
			a, b = b, a
		}
		sh := p.tt.Zext(p.tt.Apply("x25519_shared", 255, a, b), 256)
		eqPt := p.tt.Eq(pT, p.bytesTerm(pr.bytes))
		eqRes := p.tt.Eq(r, sh)
		p.assertPC(p.tt.BAnd(p.tt.BOr(p.tt.Not(eqPt), eqRes), p.tt.BOr(p.tt.Not(eqRes), eqPt)))
		p.assertPC(p.tt.BOr(p.tt.Not(eqPt), p.tt.Not(low)))
	}
	return p.termBytes(r, 32), low
}

func init() {
	I := intrinsics
	I["crypto/aes.NewCipher"] = func(p *Path, c *frame, fn *ssa.Function, a []value) value {
		k := a[0].(*sliceV)
		n := p.concretize(k.len, "aes key length")
		if n != 16 && n != 24 && n != 32 {
			return tuple{iface{}, iface{v: &errModel{msg: fmt.Sprintf("crypto/aes: invalid key size %d", n)}}}
		}
		key := append([]value(nil), p.elems(k, "aes key")...)
		return tuple{iface{v: &blockModel{key: key}}, iface{}}
	}
	I["crypto/cipher.NewGCM"] = func(p *Path, c *frame, fn *ssa.Function, a []value) value {
		b, ok := a[0].(iface).v.(*blockModel)
		if !ok {
			panic(p.unsupported("NewGCM of non-model block"))
		}
		return tuple{iface{v: &aeadModel{method: "aesgcm", key: b.key}}, iface{}}
	}
	I["golang.org/x/crypto/chacha20poly1305.New"] = func(p *Path, c *frame, fn *ssa.Function, a []value) value {
		k := a[0].(*sliceV)
		n := p.concretize(k.len, "chacha key length")
		if n != 32 {
			return tuple{iface{}, iface{v: &errModel{msg: "chacha20poly1305: bad key length"}}}
		}
		key := append([]value(nil), p.elems(k, "chacha key")...)
		return tuple{iface{v: &aeadModel{method: "chacha", key: key}}, iface{}}
	}
	I["golang.org/x/crypto/salsa20.XORKeyStream"] = func(p *Path, c *frame, fn *ssa.Function, a []value) value {
		p.salsaXOR(a[0].(*sliceV), a[1].(*sliceV), a[2].(*sliceV), a[3])
		return nil
	}
	I["golang.org/x/crypto/curve25519.X25519"] = func(p *Path, c *frame, fn *ssa.Function, a []value) value {
		s := a[0].(*sliceV)
		pt := a[1].(*sliceV)
		if p.concretize(s.len, "scalar length") != 32 || p.concretize(pt.len, "point length") != 32 {
			return tuple{&sliceV{off: p.i64(0), len: p.i64(0), cap: p.i64(0)}, iface{v: &errModel{msg: "bad scalar/point length"}}}
		}
		out, low := p.x25519(p.elems(s, "scalar"), p.elems(pt, "point"))
		if p.branch(low) {
			return tuple{&sliceV{off: p.i64(0), len: p.i64(0), cap: p.i64(0)}, iface{v: &errModel{msg: "bad input point: low order point"}}}
		}
		return tuple{p.bytesToSlice(out), iface{}}
	}
	I["golang.org/x/crypto/curve25519.ScalarBaseMult"] = func(p *Path, c *frame, fn *ssa.Function, a []value) value {
		dst := p.cellOf(a[0])
		sc := p.cellOf(a[1])
		base := make([]value, 32)
		for i := range base {
			base[i] = p.tt.Const(8, 0)
		}
		base[0] = p.tt.Const(8, 9)
		out, _ := p.x25519([]value((*sc).(array)), base)
		*dst = array(out)
		return nil
	}

	// the deprecated array API: same function, but a low-order point yields the all-zero output instead of an error
	I["golang.org/x/crypto/curve25519.ScalarMult"] = func(p *Path, c *frame, fn *ssa.Function, a []value) value {
		dst := p.cellOf(a[0])
		sc := p.cellOf(a[1])
		pt := p.cellOf(a[2])
		zeros := make([]value, 32)
		for i := range zeros {
			zeros[i] = p.tt.Const(8, 0)
		}
		out, low := p.x25519([]value((*sc).(array)), []value((*pt).(array)))
		if out == nil || p.branch(low) {
			out = zeros
		}
		*dst = array(out)
		return nil
	}

	// ---- randomness: fresh symbolic bytes (the "tape") ----
	fill := func(p *Path, s *sliceV) {
		if s.abs != nil {
			return
		}
		for i, n := 0, len(p.elems(s, "rand buffer")); i < n; i++ {
			v := p.freshVar("rand", 8)
			if p.randSmall && !(p.pin != nil && p.eng.randSeed != 0) {
				// stated reduction: random bytes restricted to {0,1} (keeps derived lengths small); not applied to
				// the concrete pseudo-random runs of translator validation
				p.assertPC(p.tt.Cmp(OpUlt, v, p.tt.Const(8, 2)))
			}
			if p.randZero {
				v = p.tt.Const(8, 0)
			}
			p.elems(s, "rand buffer")[i] = v
		}
	}
	I["crypto/rand.Read"] = func(p *Path, c *frame, fn *ssa.Function, a []value) value {
		s := a[0].(*sliceV)
		fill(p, s)
		return tuple{s.len, iface{}}
	}
	I["(*crypto/rand.reader).Read"] = func(p *Path, c *frame, fn *ssa.Function, a []value) value {
		s := a[1].(*sliceV)
		fill(p, s)
		return tuple{s.len, iface{}}
	}
	I["github.com/cbeuw/Cloak/internal/common.CryptoRandRead"] = func(p *Path, c *frame, fn *ssa.Function, a []value) value {
		fill(p, a[0].(*sliceV))
		return nil
	}
	I["github.com/cbeuw/Cloak/internal/common.RandInt"] = func(p *Path, c *frame, fn *ssa.Function, a []value) value {
		n := a[0].(*Term)
		if !p.branch(p.tt.Cmp(OpSlt, p.i64(0), n)) {
			panic(targetPanic{iface{v: &runtimeErr{"crypto/rand: argument to Int is <= 0"}}})
		}
		if p.randZero {
			return p.i64(0)
		}
		r := p.freshVar("randint", 64)
		if p.pin != nil && p.eng.randSeed != 0 && n.isConst() && r.isConst() {
			return p.i64(int64(r.val % n.val))
		}
		p.assertPC(p.tt.BAnd(p.tt.Cmp(OpSle, p.i64(0), r), p.tt.Cmp(OpSlt, r, n)))
		if p.randSmall {
			p.assertPC(p.tt.Cmp(OpSlt, r, p.i64(2)))
		} else if p.randEdges {
			// stated reduction of the quick tier: only the edge classes of each draw
			e := p.tt.fls
			for _, c := range []*Term{p.i64(0), p.i64(1), p.tt.Bin(OpAshr, n, p.i64(1)), p.tt.Bin(OpSub, n, p.i64(2)), p.tt.Bin(OpSub, n, p.i64(1))} {
				e = p.tt.BOr(e, p.tt.Eq(r, c))
			}
			p.assertPC(e)
		}
		return r
	}
	I["math/rand/v2.NewChaCha8"] = func(p *Path, c *frame, fn *ssa.Function, a []value) value { return (*value)(nil) }
	I["math/rand/v2.New"] = func(p *Path, c *frame, fn *ssa.Function, a []value) value {
		cell := new(value)
		*cell = structure{}
		return cell
	}
	I["(*math/rand/v2.Rand).Uint32N"] = func(p *Path, c *frame, fn *ssa.Function, a []value) value {
		n := a[1].(*Term)
		if !p.branch(p.tt.Not(p.tt.Eq(n, p.tt.Const(32, 0)))) {
			panic(targetPanic{iface{v: &runtimeErr{"invalid argument to Uint32N"}}})
		}
		r := p.freshVar("randconn", 32)
		if p.pin != nil && p.eng.randSeed != 0 && n.isConst() && r.isConst() {
			return p.tt.Const(32, r.val%n.val)
		}
		p.assertPC(p.tt.Cmp(OpUlt, r, n))
		return r
	}
}
