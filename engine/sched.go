package main

// Cooperative threads (one real goroutine each, exactly one running), scheduling decisions,
// mutex / rwmutex / cond / channel models, deadlock detection.

import (
	"fmt"
	"go/types"

	"golang.org/x/tools/go/ssa"
)

type Thread struct {
	id        int
	name      string
	fr        *frame
	wake      chan bool // true = run, false = die
	state     int       // 0 runnable, 1 blocked, 2 done
	blockedOn interface{}
	blockWhy  string
	isMain    bool
	waitQuiet bool // runnable only when no other thread is runnable
	probe     *probeRec
	doneCh    []*Thread
	finished  bool
	panicMsg  string
	abandoned bool
	sleeping  bool
	wakeAt    *Term
}

var sleepTok = new(int)

type probeRec struct {
	target  *Thread
	blocked bool
}

const (
	stRunnable = 0
	stBlocked  = 1
	stDone     = 2
)

type lockState struct {
	held      bool
	owner     *Thread
	readers   int
	readersBy map[*Thread]int // who holds read locks (for the lock-leak oracle)
	wwaiting  int             // writers blocked in Lock: new readers queue behind them (sync.RWMutex semantics)
	where     string          // where the write lock was taken
}

type condState struct {
	waiters []*Thread
}

type timerRec struct {
	fn      value
	stopped bool
	fired   bool
	dur     *Term
}

func (p *Path) newThread(name string) *Thread {
	t := &Thread{id: len(p.threads), name: name, wake: make(chan bool, 1)}
	p.threads = append(p.threads, t)
	return t
}

// spawn starts a new engine thread running fn(args).
func (p *Path) spawn(fn value, args []value, name string) *Thread {
	t := p.newThread(name)
	go func() {
		run := <-t.wake
		if !run {
			p.eng.threadExit(p)
			return
		}
		defer func() {
			r := recover()
			t.state = stDone
			t.finished = true
			switch x := r.(type) {
			case nil:
			case killThread:
				p.eng.threadExit(p)
				return
			case targetPanic:
				// uncaught panic in a goroutine crashes the process
				t.panicMsg = x.String()
				p.crash = &crashRec{msg: fmt.Sprintf("uncaught panic in goroutine %q: %s", t.name, x.String()), where: t.whereStr()}
			case abortPath:
				p.pendingAbort = &x
			default:
				p.pendingAbort = &abortPath{kind: "unsupported", msg: fmt.Sprintf("engine panic in thread %s: %v\n%s", t.name, r, t.whereStack())}
			}
			// hand control back to the scheduler from a dying thread
			p.threadFinished(t)
		}()
		p.cur = t
		p.call(nil, fn, args)
	}()
	p.schedPoint("go")
	return t
}

func (t *Thread) whereStr() string {
	if t.fr != nil {
		return t.fr.where()
	}
	return "?"
}

func (t *Thread) whereStack() string {
	if t.fr != nil {
		return t.fr.stack()
	}
	return "?"
}

// threadFinished is called on the dying thread's goroutine: pick a successor and wake it.
func (p *Path) threadFinished(t *Thread) {
	p.wakeWaiters(t)
	if p.pendingAbort != nil || p.crash != nil {
		// give control to main so it can unwind the path
		m := p.threads[0]
		m.state = stRunnable
		p.cur = m
		m.wake <- true
		p.eng.threadExit(p)
		return
	}
	next := p.pickNext(nil)
	if next == nil && p.resolveProbe() {
		next = p.pickNext(nil)
	}
	if next == nil {
		// nothing runnable: resume main to report deadlock
		p.deadlock = true
		m := p.threads[0]
		p.cur = m
		m.wake <- true
		p.eng.threadExit(p)
		return
	}
	p.cur = next
	next.wake <- true
	p.eng.threadExit(p)
}

func (p *Path) runnableThreads() []*Thread {
	var rs []*Thread
	var quiet []*Thread
	for _, t := range p.threads {
		if t.state == stRunnable {
			if t.waitQuiet {
				quiet = append(quiet, t)
			} else {
				rs = append(rs, t)
			}
		}
	}
	if len(rs) == 0 {
		return quiet
	}
	return rs
}

// pickNext chooses the next thread among runnable ones other than cur (cur==nil: any).
func (p *Path) pickNext(exclude *Thread) *Thread {
	rs := p.runnableThreads()
	var cands []*Thread
	for _, t := range rs {
		if t != exclude {
			cands = append(cands, t)
		}
	}
	if len(cands) == 0 {
		return nil
	}
	if len(cands) == 1 || p.detSched {
		// deterministic mode: at a blocking point the lowest-numbered runnable thread continues; the harness
		// supplies the nondeterminism that matters explicitly (message delivery order, preemptions)
		return cands[0]
	}
	c := p.decideCtl(len(cands))
	p.res.SchedPoints++
	return cands[c]
}

// switchTo transfers the baton from the current thread to t and parks the current one.
func (p *Path) switchTo(t *Thread) {
	me := p.cur
	if t == me {
		return
	}
	p.cur = t
	t.wake <- true
	run := <-me.wake
	if !run {
		panic(killThread{})
	}
	p.cur = me
	p.afterResume()
}

func (p *Path) afterResume() {
	if p.cur.isMain {
		if p.pendingAbort != nil {
			a := *p.pendingAbort
			p.pendingAbort = nil
			panic(a)
		}
		if p.crash != nil && !p.crashReported {
			p.crashReported = true
			p.reportViolation("panic", p.crash.msg+" at "+p.crash.where, "", p.modelOrNil())
			panic(abortPath{kind: "stop", msg: "crash"})
		}
	}
}

func (p *Path) modelOrNil() map[string]uint64 {
	return p.fullModel(nil)
}

// schedPoint: a visible operation is about to happen; maybe preempt.
func (p *Path) schedPoint(why string) {
	if len(p.threads) <= 1 || p.noPreempt > 0 {
		return
	}
	if p.preemptions >= p.maxPreempt {
		return
	}
	rs := p.runnableThreads()
	var others []*Thread
	for _, t := range rs {
		if t != p.cur && !t.waitQuiet {
			others = append(others, t)
		}
	}
	if len(others) == 0 {
		return
	}
	p.res.SchedPoints++
	c := p.decideCtl(1 + len(others))
	if c == 0 {
		return
	}
	p.preemptions++
	p.switchTo(others[c-1])
}

// block parks the current thread until woken (state set runnable by someone), then returns.
func (p *Path) block(on interface{}, why string) {
	me := p.cur
	me.state = stBlocked
	me.blockedOn = on
	me.blockWhy = why
	for {
		next := p.pickNext(me)
		if next == nil {
			// nobody can run. Is a probe (WouldBlock) waiting on someone?
			if p.resolveProbe() {
				if me.state == stRunnable {
					return
				}
				continue
			}
			p.deadlock = true
			if me.isMain {
				p.reportDeadlock()
				panic(abortPath{kind: "stop", msg: "deadlock"})
			}
			m := p.threads[0]
			p.cur = m
			m.wake <- true
			run := <-me.wake
			if !run {
				panic(killThread{})
			}
			p.cur = me
			continue
		}
		p.cur = next
		next.wake <- true
		run := <-me.wake
		if !run {
			panic(killThread{})
		}
		p.cur = me
		p.afterResume()
		if p.deadlock && me.isMain {
			p.reportDeadlock()
			panic(abortPath{kind: "stop", msg: "deadlock"})
		}
		if me.state == stRunnable {
			me.blockedOn = nil
			return
		}
	}
}

// resolveProbe: if main waits in WouldBlock for a thread that is blocked, answer "blocked".
func (p *Path) resolveProbe() bool {
	for _, t := range p.threads {
		if t.state == stBlocked && t.probe != nil && t.probe.target.state == stBlocked {
			t.probe.blocked = true
			t.state = stRunnable
			if t != p.cur {
				// let block() loop pick it
			}
			return true
		}
	}
	// timed sleepers: advance the virtual clock to the earliest wake-up time
	var best *Thread
	for _, t := range p.threads {
		if t.state == stBlocked && t.sleeping && t.wakeAt != nil {
			if best == nil || p.branch(p.tt.Cmp(OpSlt, t.wakeAt, best.wakeAt)) {
				best = t
			}
		}
	}
	if best != nil {
		p.clock = p.tt.Ite(p.tt.Cmp(OpSlt, p.clock, best.wakeAt), best.wakeAt, p.clock)
		best.sleeping = false
		best.wakeAt = nil
		best.state = stRunnable
		return true
	}
	// a thread waiting for quiescence becomes runnable when nothing else can run
	for _, t := range p.threads {
		if t.state == stBlocked && t.blockWhy == "quiesce" {
			t.state = stRunnable
			return true
		}
	}
	return false
}

func (p *Path) reportDeadlock() {
	msg := "deadlock: all goroutines blocked:"
	for _, t := range p.threads {
		if t.state == stBlocked {
			msg += fmt.Sprintf(" [%s: %s at %s]", t.name, t.blockWhy, t.whereStr())
		}
	}
	p.reportViolation("deadlock", msg, p.deadlockKnown, p.modelOrNil())
}

func (p *Path) wake(on interface{}) {
	_, isCh := on.(*chanV)
	for _, t := range p.threads {
		if t.state == stBlocked && (t.blockedOn == on || isCh && t.blockedOn == anyChan) {
			t.state = stRunnable
		}
	}
}

func (p *Path) wakeWaiters(done *Thread) {
	for _, t := range p.threads {
		if t.state == stBlocked && t.blockedOn == done {
			t.state = stRunnable
		}
	}
}

// killAll terminates all parked threads at the end of a path.
func (p *Path) killAll() {
	for _, t := range p.threads[1:] {
		if !t.finished {
			t.finished = true
			t.wake <- false
		}
	}
}

// ---- locks ----

func (p *Path) lockOf(addr *value) *lockState {
	l, ok := p.locks[addr]
	if !ok {
		l = &lockState{}
		p.locks[addr] = l
	}
	return l
}

func (p *Path) mutexLock(addr *value) {
	p.schedPoint("Lock")
	l := p.lockOf(addr)
	if l.held || l.readers > 0 {
		l.wwaiting++
		for l.held || l.readers > 0 {
			p.block(l, "Lock")
		}
		l.wwaiting--
	}
	l.held = true
	l.owner = p.cur
	l.where = p.where()
}

func (p *Path) mutexTryLock(addr *value) bool {
	p.schedPoint("TryLock")
	l := p.lockOf(addr)
	if l.held || l.readers > 0 {
		return false
	}
	l.held = true
	l.owner = p.cur
	l.where = p.where()
	return true
}

func (p *Path) mutexUnlock(addr *value) {
	l := p.lockOf(addr)
	if !l.held {
		panic(targetPanic{iface{v: &runtimeErr{"fatal error: sync: unlock of unlocked mutex"}}})
	}
	l.held = false
	l.owner = nil
	p.wake(l)
}

func (p *Path) rLock(addr *value) {
	p.schedPoint("RLock")
	l := p.lockOf(addr)
	// a blocked Lock call excludes new readers (sync.RWMutex: "a blocked Lock call excludes new readers from
	// acquiring the lock"), which is what makes recursive read locking deadlock-prone
	for l.held || l.wwaiting > 0 {
		p.block(l, "RLock")
	}
	l.readers++
	if l.readersBy == nil {
		l.readersBy = map[*Thread]int{}
	}
	l.readersBy[p.cur]++
}

func (p *Path) rUnlock(addr *value) {
	l := p.lockOf(addr)
	if l.readers <= 0 {
		panic(targetPanic{iface{v: &runtimeErr{"fatal error: sync: RUnlock of unlocked RWMutex"}}})
	}
	l.readers--
	if l.readersBy[p.cur] > 0 {
		l.readersBy[p.cur]--
	} else {
		for t, n := range l.readersBy { // released by another goroutine than the one that took it
			if n > 0 {
				l.readersBy[t]--
				break
			}
		}
	}
	p.wake(l)
}

// leakedLock: a mutex still held at the end of the harness by a goroutine that has returned (nobody can ever
// release it: every later Lock blocks for ever).
func (p *Path) leakedLock() string {
	// a goroutine parked in Lock/RLock when nothing can run any more waits for ever
	quiet := true
	for _, t := range p.threads {
		if t.state == stRunnable && !t.isMain && !t.abandoned {
			quiet = false
		}
	}
	if quiet {
		for _, t := range p.threads {
			if t.state == stBlocked && !t.abandoned && (t.blockWhy == "Lock" || t.blockWhy == "RLock") {
				return "goroutine " + t.name + " is blocked for ever in " + t.blockWhy
			}
		}
	}
	for _, l := range p.locks {
		if l.held && l.owner != nil && (l.owner.state == stDone || l.owner.isMain) && !l.owner.abandoned {
			return "left locked for ever by goroutine " + l.owner.name + ", which has returned (write lock taken at " + l.where + ")"
		}
		for t, n := range l.readersBy {
			if n > 0 && (t.state == stDone || t.isMain) && !t.abandoned {
				return "read lock left held for ever by goroutine " + t.name + ", which has returned"
			}
		}
	}
	return ""
}

// ---- cond ----

func (p *Path) condOf(addr *value) *condState {
	c, ok := p.conds[addr]
	if !ok {
		c = &condState{}
		p.conds[addr] = c
	}
	return c
}

// ---- channels ----

func (p *Path) chanSend(ch *chanV, v value) {
	p.schedPoint("chan send")
	if ch == nil {
		p.block(new(int), "send on nil channel")
	}
	for {
		if ch.closed {
			panic(p.rtPanic("send on closed channel"))
		}
		if len(ch.buf) < ch.cap {
			ch.buf = append(ch.buf, copyVal(v))
			p.wake(ch)
			return
		}
		if ch.cap == 0 {
			// rendezvous: register and wait for a receiver to take it
			w := &chanWaiter{t: p.cur, v: copyVal(v)}
			ch.senders = append(ch.senders, w)
			p.wake(ch)
			for !w.done {
				if ch.closed {
					panic(p.rtPanic("send on closed channel"))
				}
				p.block(ch, "chan send")
			}
			return
		}
		p.block(ch, "chan send")
	}
}

func (p *Path) chanRecv(ch *chanV, et types.Type) (value, bool) {
	p.schedPoint("chan recv")
	if ch == nil {
		p.block(new(int), "receive on nil channel")
	}
	for {
		if v, ok, got := p.chanTryRecv(ch, et); got {
			return v, ok
		}
		p.block(ch, "chan receive")
	}
}

func (p *Path) chanTryRecv(ch *chanV, et types.Type) (value, bool, bool) {
	if len(ch.buf) > 0 {
		v := ch.buf[0]
		ch.buf = ch.buf[1:]
		p.wake(ch)
		return v, true, true
	}
	for len(ch.senders) > 0 {
		w := ch.senders[0]
		ch.senders = ch.senders[1:]
		w.done = true
		p.wake(ch)
		return w.v, true, true
	}
	if ch.closed {
		return p.zero(et), false, true
	}
	return nil, false, false
}

func (p *Path) chanClose(ch *chanV) {
	if ch == nil {
		panic(p.rtPanic("close of nil channel"))
	}
	if ch.closed {
		panic(p.rtPanic("close of closed channel"))
	}
	ch.closed = true
	p.wake(ch)
}

func (p *Path) selectOp(instr *ssa.Select, fr *frame) value {
	p.schedPoint("select")
	type st struct {
		ch   *chanV
		send value
		dir  types.ChanDir
		et   types.Type
	}
	var states []st
	for _, s := range instr.States {
		ch, _ := fr.get(s.Chan).(*chanV)
		x := st{ch: ch, dir: s.Dir, et: s.Chan.Type().Underlying().(*types.Chan).Elem()}
		if s.Send != nil {
			x.send = fr.get(s.Send)
		}
		states = append(states, x)
	}
	mk := func(chosen int, recvOk bool, v value) value {
		r := tuple{p.i64(int64(chosen)), p.tt.Bool(recvOk)}
		for i, s := range states {
			if s.dir == types.RecvOnly {
				if i == chosen && v != nil {
					r = append(r, v)
				} else {
					r = append(r, p.zero(s.et))
				}
			}
		}
		return r
	}
	for {
		var ready []int
		for i, s := range states {
			if s.ch == nil {
				continue
			}
			if s.dir == types.RecvOnly {
				if len(s.ch.buf) > 0 || len(s.ch.senders) > 0 || s.ch.closed {
					ready = append(ready, i)
				}
			} else {
				if s.ch.closed || len(s.ch.buf) < s.ch.cap {
					ready = append(ready, i)
				}
			}
		}
		if len(ready) > 0 {
			c := 0
			if len(ready) > 1 {
				c = p.decideCtl(len(ready))
			}
			i := ready[c]
			s := states[i]
			if s.dir == types.RecvOnly {
				v, ok, _ := p.chanTryRecv(s.ch, s.et)
				return mk(i, ok, v)
			}
			if s.ch.closed {
				panic(p.rtPanic("send on closed channel"))
			}
			s.ch.buf = append(s.ch.buf, copyVal(s.send))
			p.wake(s.ch)
			return mk(i, false, nil)
		}
		if !instr.Blocking {
			return mk(-1, false, nil)
		}
		// block on all channels: use a shared token
		tok := new(int)
		for _, s := range states {
			if s.ch != nil {
				p.selWait = append(p.selWait, selWaiter{s.ch, p.cur})
			}
		}
		_ = tok
		p.blockSelect(states[0].ch)
	}
}

type selWaiter struct {
	ch *chanV
	t  *Thread
}

// blockSelect blocks the current thread until any channel activity (coarse: woken by any chan wake).
func (p *Path) blockSelect(ch *chanV) {
	p.block(anyChan, "select")
}

var anyChan = new(int)
